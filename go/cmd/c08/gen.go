package main

import (
	"bytes"
	"fmt"
	"math"
	"sort"
	"strings"

	"github.com/influxdata/influxdb/v2/tsdb/engine/tsm1"
	"verif/harness/h"
)

type blk struct {
	min, max    int64
	data        []byte
	times, vals []int64 // valued blocks: data = Values.Encode of these
}

type kb struct {
	key    []byte
	blocks []blk
	valued bool
}

// ---------------------------------------------------------------- keys

var alpha = []byte{0x00, 0x01, ' ', ',', '=', '\\', 'a', 'b', 0x7f, 0xfe, 0xff}

func randKey(r *h.Rand) []byte {
	switch r.Intn(10) {
	case 0, 1, 2, 3: // short keys over a small alphabet: many prefix relations, 1-byte keys
		n := 1 + r.Intn(4)
		k := make([]byte, n)
		for i := range k {
			k[i] = h.Pick(r, alpha)
		}
		return k
	case 4, 5, 6: // series keys with escaped characters and the field separator
		ms := []string{"cpu", "c\\ pu", "m\\,x", "disk\\=1", "a"}
		hosts := []string{"a", "server\\ 01", "b\\,c", "x\\=y", "\\\\"}
		fields := []string{"value", "v\\ 2", "usage_idle", "f"}
		s := h.Pick(r, ms)
		if r.Chance(0.8) {
			s += ",host=" + h.Pick(r, hosts)
		}
		if r.Chance(0.4) {
			s += ",region=" + h.Pick(r, []string{"us", "eu\\ west"})
		}
		return []byte(s + "#!~#" + h.Pick(r, fields))
	case 7: // random bytes
		n := 1 + r.Intn(12)
		k := make([]byte, n)
		for i := range k {
			k[i] = byte(r.Intn(256))
		}
		return k
	case 8: // a few hundred bytes
		n := 250 + r.Intn(100)
		return bytes.Repeat([]byte{h.Pick(r, alpha)}, n)
	default:
		return []byte{byte(r.Intn(256))}
	}
}

func sortedKeys(r *h.Rand, n int) [][]byte {
	seen := map[string]bool{}
	var ks [][]byte
	for tries := 0; len(ks) < n && tries < 20*n; tries++ {
		k := randKey(r)
		if len(k) == 0 || seen[string(k)] {
			continue
		}
		seen[string(k)] = true
		ks = append(ks, k)
	}
	sort.Slice(ks, func(i, j int) bool { return bytes.Compare(ks[i], ks[j]) < 0 })
	return ks
}

// neighbours of the keys in byte order, absent keys, the empty key
func probeKeys(r *h.Rand, ks [][]byte, extra int) [][]byte {
	var ps [][]byte
	ps = append(ps, ks...)
	ps = append(ps, []byte{}, []byte{0}, []byte{0xff, 0xff, 0xff, 0xff, 0xff})
	for _, k := range ks {
		if r.Chance(0.5) {
			ps = append(ps, append(append([]byte{}, k...), 0))
		}
		if r.Chance(0.4) && len(k) > 1 {
			ps = append(ps, append([]byte{}, k[:len(k)-1]...))
		}
		if r.Chance(0.4) {
			m := append([]byte{}, k...)
			m[len(m)-1]++
			ps = append(ps, m)
		}
		if r.Chance(0.4) {
			m := append([]byte{}, k...)
			m[len(m)-1]--
			ps = append(ps, m)
		}
	}
	for i := 0; i < extra; i++ {
		ps = append(ps, randKey(r))
	}
	return ps
}

// ---------------------------------------------------------------- blocks

func rawBlock(r *h.Rand) []byte {
	n := 1 + r.Intn(12)
	b := make([]byte, n)
	for i := range b {
		b[i] = byte(r.Intn(256))
	}
	b[0] = byte(r.Intn(5))
	return b
}

func encodeInts(times, vals []int64) []byte {
	b, err := intValues(times, vals).Encode(nil)
	if err != nil {
		panic(err)
	}
	return b
}

// time axis of one key: consecutive blocks, mostly disjoint and increasing
func genBlocks(r *h.Rand, n int, valued bool, base int64, mode int) []blk {
	var out []blk
	t := base
	for i := 0; i < n; i++ {
		var b blk
		if valued {
			cnt := 1 + r.Intn(5)
			for j := 0; j < cnt; j++ {
				b.times = append(b.times, t)
				b.vals = append(b.vals, r.Range(-1000, 1000))
				t += 1 + int64(r.Intn(4))
			}
			b.min, b.max = b.times[0], b.times[len(b.times)-1]
			b.data = encodeInts(b.times, b.vals)
			t += int64(r.Intn(3)) // 0: the next block starts right after
		} else {
			b.min = t
			b.max = t + int64(r.Intn(10))
			if len(out) > 0 && b.max < out[len(out)-1].max && r.Chance(0.95) {
				b.max = out[len(out)-1].max // max times non-decreasing (the specified domain); rarely not
			}
			b.data = rawBlock(r)
			switch mode {
			case 0: // disjoint, possibly adjacent
				t = b.max + 1 + int64(r.Intn(5))
			case 1: // touching / overlapping neighbours (max monotone)
				t = b.max - int64(r.Intn(2))
				if t <= b.min {
					t = b.min + 1
				}
			default:
				t = b.max + 1 + int64(r.Intn(50))
			}
		}
		out = append(out, b)
	}
	return out
}

func genContent(r *h.Rand, nkeys int, valuedP float64) []kb {
	ks := sortedKeys(r, nkeys)
	var out []kb
	for _, k := range ks {
		valued := r.Chance(valuedP)
		nb := 1 + r.Intn(4)
		if r.Chance(0.05) {
			nb = 20 + r.Intn(60)
		}
		base := r.Range(-40, 120)
		switch r.Intn(12) {
		case 0:
			base = math.MinInt64
		case 1:
			base = math.MaxInt64 - 400
		case 2:
			base = -200
		}
		if nb > 10 && base > math.MaxInt64-100000 {
			base = 0
		}
		out = append(out, kb{key: k, blocks: genBlocks(r, nb, valued, base, r.Intn(3)), valued: valued})
	}
	return out
}

func writeOps(r *h.Rand, c []kb) []string {
	var ops []string
	for _, k := range c {
		for _, b := range k.blocks {
			if k.valued {
				op := "wbv"
				if r.Bool() {
					op = "w"
				}
				ops = append(ops, fmt.Sprintf("%s %s %s %s %s", op, keyTok(k.key), h.Hex(b.data), h.Ints(b.times), h.Ints(b.vals)))
			} else {
				ops = append(ops, fmt.Sprintf("wb %s %d %d %s", keyTok(k.key), b.min, b.max, h.Hex(b.data)))
			}
		}
	}
	return ops
}

func notableTimes(c []kb) []int64 {
	seen := map[int64]bool{}
	var ts []int64
	add := func(t int64) {
		if !seen[t] {
			seen[t] = true
			ts = append(ts, t)
		}
	}
	for _, k := range c {
		for _, b := range k.blocks {
			add(b.min)
			add(b.max)
			if b.min > math.MinInt64 {
				add(b.min - 1)
			}
			if b.max < math.MaxInt64 {
				add(b.max + 1)
			}
		}
	}
	add(0)
	add(math.MinInt64)
	add(math.MaxInt64)
	return ts
}

func totalBytes(c []kb) int {
	n := 0
	for _, k := range c {
		n += len(k.key) + 5
		for _, b := range k.blocks {
			n += len(b.data) + 32
		}
	}
	return n
}

// ---------------------------------------------------------------- case kinds

func lookupCase(r *h.Rand, c []kb, full bool) []string {
	ops := writeOps(r, c)
	ops = append(ops, "wsize", "wi")
	small := totalBytes(c) < 6000
	if small {
		ops = append(ops, "file")
	}
	ops = append(ops, "index", "filelen", "open", "keycount", "timerange", "keyrange", "hastomb")
	n := len(c)
	for i := -1; i <= n+1; i++ {
		if full || r.Chance(0.5) {
			ops = append(ops, fmt.Sprintf("keyat %d", i))
		}
		if full || r.Chance(0.3) {
			ops = append(ops, fmt.Sprintf("key %d", i))
		}
	}
	var ks [][]byte
	for _, k := range c {
		ks = append(ks, k.key)
	}
	ts := notableTimes(c)
	for _, p := range probeKeys(r, ks, 3) {
		kt := keyTok(p)
		ops = append(ops, "seek "+kt, "contains "+kt, "entries "+kt, "type "+kt)
		for j := 0; j < 4; j++ {
			t := h.Pick(r, ts)
			ops = append(ops, fmt.Sprintf("entry %s %d", kt, t), fmt.Sprintf("containsvalue %s %d", kt, t))
		}
		if r.Chance(0.3) {
			ops = append(ops, "tombrange "+kt)
		}
	}
	for _, k := range c {
		kt := keyTok(k.key)
		for i := range k.blocks {
			if full || r.Chance(0.5) {
				ops = append(ops, fmt.Sprintf("readbytes %s %d", kt, i))
			}
		}
		ops = append(ops, fmt.Sprintf("readbytes %s %d", kt, len(k.blocks)))
		if k.valued {
			ops = append(ops, "readall "+kt, fmt.Sprintf("read %s %d", kt, h.Pick(r, ts)))
		}
	}
	for j := 0; j < 6; j++ {
		a, b := h.Pick(r, ts), h.Pick(r, ts)
		ops = append(ops, fmt.Sprintf("overlapstime %d %d", a, b))
		p, q := h.Pick(r, probeKeys(r, ks, 1)), h.Pick(r, probeKeys(r, ks, 1))
		ops = append(ops, fmt.Sprintf("overlapskey %s %s", keyTok(p), keyTok(q)))
	}
	if small {
		ops = append(ops, "iter")
	}
	ops = append(ops, "walk")
	return ops
}

type trange struct{ lo, hi int64 }

// a time range for a delete: inside a key's span, covering it, outside it,
// adjacent to / overlapping an earlier range, one-sided, inverted
func pickRange(r *h.Rand, c []kb, prev []trange) trange {
	k := h.Pick(r, c)
	lo, hi := k.blocks[0].min, k.blocks[len(k.blocks)-1].max
	span := func() (int64, int64) {
		if hi-lo < 0 || hi-lo > 1<<40 { // overflow guard
			return lo, lo
		}
		return lo, hi
	}
	lo, hi = span()
	w := hi - lo
	switch r.Intn(14) {
	case 0: // everything
		return trange{math.MinInt64, math.MaxInt64}
	case 1: // exactly the key's span
		return trange{lo, hi}
	case 2: // one short of the span on either side
		if w >= 1 {
			if r.Bool() {
				return trange{lo + 1, hi}
			}
			return trange{lo, hi - 1}
		}
		return trange{lo, hi}
	case 3: // left part
		return trange{math.MinInt64, lo + r.Range(0, w)}
	case 4: // right part
		return trange{lo + r.Range(0, w), math.MaxInt64}
	case 5, 6: // adjacent to / overlapping an earlier range
		if len(prev) > 0 {
			p := h.Pick(r, prev)
			if p.hi < math.MaxInt64-20 && p.lo > math.MinInt64+20 {
				switch r.Intn(4) {
				case 0:
					return trange{p.hi + 1, p.hi + 1 + r.Range(0, 6)}
				case 1:
					return trange{p.lo - 1 - r.Range(0, 6), p.lo - 1}
				case 2:
					return trange{p.hi - r.Range(0, 3), p.hi + r.Range(0, 6)}
				default:
					return trange{p.hi + 2, p.hi + 2 + r.Range(0, 6)} // a gap of one
				}
			}
		}
		fallthrough
	case 7, 8, 9: // a piece inside
		a := lo + r.Range(0, w)
		return trange{a, a + r.Range(0, 5)}
	case 10: // a single block's bounds
		b := h.Pick(r, k.blocks)
		return trange{b.min, b.max}
	case 11: // outside
		if r.Bool() && lo > math.MinInt64+100 {
			return trange{lo - 50, lo - 1}
		}
		if hi < math.MaxInt64-100 {
			return trange{hi + 1, hi + 50}
		}
		return trange{lo, lo}
	case 12: // inverted
		return trange{lo + 3, lo + 1}
	default:
		a := r.Range(-60, 200)
		return trange{a, a + r.Range(0, 30)}
	}
}

func pickKeys(r *h.Rand, c []kb) [][]byte {
	var ks [][]byte
	p := 0.2 + 0.6*float64(r.Intn(3))/2
	for _, k := range c {
		if r.Chance(p) {
			ks = append(ks, k.key)
			if r.Chance(0.05) {
				ks = append(ks, k.key) // duplicate
			}
		}
	}
	if r.Chance(0.3) { // keys not in the file
		for i := 0; i < 1+r.Intn(2); i++ {
			ks = append(ks, randKey(r))
		}
	}
	if len(ks) == 0 && r.Chance(0.9) {
		ks = append(ks, h.Pick(r, c).key)
	}
	sort.Slice(ks, func(i, j int) bool { return bytes.Compare(ks[i], ks[j]) < 0 })
	return ks
}

func deleteProbes(r *h.Rand, c []kb, ranges []trange, heavy bool) []string {
	ops := []string{"keycount", "hastomb", "walk"}
	var ts []int64
	ts = append(ts, notableTimes(c)...)
	for _, g := range ranges {
		ts = append(ts, g.lo, g.hi)
		if g.lo > math.MinInt64 {
			ts = append(ts, g.lo-1)
		}
		if g.hi < math.MaxInt64 {
			ts = append(ts, g.hi+1)
		}
	}
	for i, k := range c {
		kt := keyTok(k.key)
		ops = append(ops, "contains "+kt, "tombrange "+kt)
		if heavy || r.Chance(0.4) {
			ops = append(ops, fmt.Sprintf("keyat %d", i), "seek "+kt, "entries "+kt)
		}
		if k.valued {
			ops = append(ops, "readall "+kt)
		}
		nprobe := 4
		if heavy {
			nprobe = 10
		}
		for j := 0; j < nprobe; j++ {
			ops = append(ops, fmt.Sprintf("containsvalue %s %d", kt, h.Pick(r, ts)))
		}
	}
	return ops
}

func deleteCase(r *h.Rand, c []kb, steps int, crashP float64, crashStep int) []string {
	ops := writeOps(r, c)
	ops = append(ops, "wi", "open", "keycount", "timerange", "keyrange")
	var ranges []trange
	for s := 0; s < steps; s++ {
		switch x := r.Intn(20); {
		case x < 9:
			g := pickRange(r, c, ranges)
			ranges = append(ranges, g)
			op := "delrange"
			if r.Chance(crashP) {
				ops = append(ops, fmt.Sprintf("crash %s %d %d %d", keysTok(pickKeys(r, c)), g.lo, g.hi, crashStep))
			} else {
				ops = append(ops, fmt.Sprintf("%s %s %d %d", op, keysTok(pickKeys(r, c)), g.lo, g.hi))
			}
		case x < 11:
			ops = append(ops, "del "+keysTok(pickKeys(r, c)))
			ranges = append(ranges, trange{math.MinInt64, math.MaxInt64})
		case x < 14:
			ops = append(ops, "bd.begin")
			for i := 0; i < 1+r.Intn(3); i++ {
				g := pickRange(r, c, ranges)
				ranges = append(ranges, g)
				ops = append(ops, fmt.Sprintf("bd.range %s %d %d", keysTok(pickKeys(r, c)), g.lo, g.hi))
			}
			if r.Chance(0.75) {
				ops = append(ops, "bd.commit")
			} else {
				ops = append(ops, "bd.rollback")
			}
		case x < 17:
			ops = append(ops, "reopen")
		default:
			ops = append(ops, "delrange - 0 10")
		}
		ops = append(ops, deleteProbes(r, c, ranges, false)...)
	}
	ops = append(ops, "reopen")
	ops = append(ops, deleteProbes(r, c, ranges, true)...)
	return ops
}

func tombstonerCase(r *h.Rand) []string {
	ops := []string{"ts.walk", "ts.new", "ts.has", "ts.walk"}
	n := 3 + r.Intn(10)
	for i := 0; i < n; i++ {
		var ks [][]byte
		for j := 0; j < r.Intn(4); j++ {
			ks = append(ks, randKey(r))
		}
		if r.Chance(0.05) {
			ks = append(ks, []byte{})
		}
		switch x := r.Intn(20); {
		case x < 7:
			ops = append(ops, fmt.Sprintf("ts.addrange %s %d %d", keysTok(ks), r.Range(-100, 100), r.Range(-100, 100)))
		case x < 9:
			ops = append(ops, "ts.add "+keysTok(ks))
		case x < 13:
			ops = append(ops, "ts.flush")
		case x < 14:
			ops = append(ops, "ts.rollback")
		case x < 15:
			ops = append(ops, "ts.delete")
		case x < 17:
			ops = append(ops, "ts.new")
		case x < 19:
			ops = append(ops, "ts.walk")
		default:
			ops = append(ops, fmt.Sprintf("ts.addrange %s %d %d", keysTok(ks), int64(math.MinInt64), int64(math.MaxInt64)))
		}
		if r.Chance(0.5) {
			ops = append(ops, "ts.walkfresh", "ts.has")
		}
	}
	ops = append(ops, "ts.flush", "ts.walk", "ts.walk", "ts.walkfresh", "ts.new", "ts.walk", "ts.has")
	return ops
}

func errorCases(r *h.Rand, tier string, emit func([]string)) {
	blk := "01aabb"
	// no values at all / only empty blocks
	emit([]string{"wi", "open"})
	emit([]string{"wb 61 1 2 -", "wsize", "wi", "filelen", "open"})
	// unknown block type, then a good block
	emit([]string{"wb 61 1 2 05ff", "wb 61 1 2 ff", "wb 61 3 4 " + blk, "wi", "index", "open", "entries 61", "type 61", "iter"})
	// keys out of order
	emit([]string{"wb 62 1 2 " + blk, "wb 61 3 4 " + blk, "wb 63 3 4 " + blk, "wi", "open"})
	emit([]string{"wb 6162 1 2 " + blk, "wb 61 3 4 " + blk})
	// the key-length limit: 65535 fits, 65536 does not
	long := strings.Repeat("6b", 65535)
	emit([]string{"wb 61 1 2 " + blk, "wb " + long + " 5 9 " + blk, "wb " + long + "6b 5 9 " + blk, "wi", "open", "keycount",
		"keyat 1", "contains " + long, "entries " + long, "seek " + long, "seek " + long + "00", "keyrange", "contains " + long + "6b", "readbytes " + long + " 0", "filelen"})
	emit([]string{"wb " + long + "6b 5 9 " + blk, "wi", "open"})
	// unsorted / equal-min entries inside a key (sorted by the writer)
	emit([]string{"wb 61 30 39 " + blk, "wb 61 10 19 02", "wb 61 20 29 03ff", "wb 62 5 6 04", "wi", "file", "open", "entries 61", "type 61", "timerange", "iter"})
	// the empty key is taken for "no current key" by the index writer
	emit([]string{"wb . 1 2 " + blk, "wsize", "wi", "file", "open"})
	emit([]string{"wb . 1 2 " + blk, "wb . 3 4 00", "wb 61 5 6 02", "wb 62 7 8 03", "wsize", "wi", "file", "open", "keycount", "entries .", "entries 61", "type 61", "entries 62", "contains .", "iter"})
	// negative times only: the index starts its max-time scan at 0
	emit([]string{"wb 61 -20 -10 " + blk, "wb 62 -9 -5 " + blk, "wi", "open", "timerange", "overlapstime -4 7", "overlapstime 1 7", "delrange 61,62 -3 5", "walk", "containsvalue 61 -10"})
	// seek beyond the last key
	emit([]string{"wb 61 1 2 " + blk, "wb 63 1 2 " + blk, "wi", "open", "seek 60", "seek 61", "seek 62", "seek 63", "seek 64", "seek ffff", "keycount"})
	// the entries-per-key limit
	if tier == "thorough" {
		emit([]string{"wbn 61 65534 0 10 " + blk, "wsize", "wb 61 1000000 1000001 " + blk, "wb 62 0 1 " + blk, "wi", "filelen", "open", "keycount", "key 1", "timerange", "containsvalue 61 655339", "containsvalue 61 1000001", "contains 62"})
		emit([]string{"wbn 61 65537 0 10 " + blk, "wsize", "wi"})
		emit([]string{"wbn 61 65536 0 10 " + blk, "wb 62 0 1 " + blk, "wb 62 2 3 " + blk, "wsize", "wi"})
	} else {
		emit([]string{"wbn 61 300 0 10 " + blk, "wsize", "wb 62 0 1 " + blk, "wi", "filelen", "open", "keycount", "key 1", "timerange", "containsvalue 61 2999", "containsvalue 61 3000", "contains 62"})
	}
	// more than 4096 keys in one delete: applyTombstones applies it in batches
	if tier == "thorough" {
		var ops []string
		var ks []string
		for i := 0; i < 5000; i++ {
			k := fmt.Sprintf("%08x", 0x61000000+i)
			ks = append(ks, k)
			ops = append(ops, fmt.Sprintf("wb %s %d %d %s", k, i, i+10, blk))
		}
		ops = append(ops, "wi", "open", "keycount", "delrange "+strings.Join(ks, ",")+" 3 5000", "keycount", "tombrange "+ks[0], "tombrange "+ks[4999], "tombrange "+ks[4096],
			"delrange "+strings.Join(ks, ",")+" 0 4500", "keycount", "seek "+ks[4700], "reopen", "keycount", "tombrange "+ks[4999], "contains "+ks[4096])
		emit(ops)
	}
	_ = tsm1.Version
}

func gen(r *h.Rand, tier string, emit func([]string)) {
	errorCases(r, tier, emit)
	nLookup, nDelete, nCrash, nTs := 120, 200, 36, 50
	if tier == "thorough" {
		nLookup, nDelete, nCrash, nTs = 1200, 2400, 200, 300
	}
	for i := 0; i < nLookup; i++ {
		nk := 1 + r.Intn(8)
		if r.Chance(0.1) {
			nk = 20 + r.Intn(60)
		}
		emit(lookupCase(r, genContent(r, nk, 0.3), r.Chance(0.3)))
	}
	for i := 0; i < nDelete; i++ {
		emit(deleteCase(r, genContent(r, 1+r.Intn(6), 0.5), 2+r.Intn(7), 0, 1))
	}
	for i := 0; i < nCrash; i++ {
		step := 7
		if tier == "thorough" || r.Chance(0.25) {
			step = 1 // every byte offset
		}
		emit(deleteCase(r, genContent(r, 1+r.Intn(4), 0.5), 2+r.Intn(4), 0.7, step))
	}
	for i := 0; i < nTs; i++ {
		emit(tombstonerCase(r))
	}
}
