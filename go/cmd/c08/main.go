// Harness for C08: drives the real tsm1.NewTSMWriter / NewTSMReader /
// Tombstoner on generated key sets, block lists, deletes and tombstone-commit
// crash states.  One case = one TSM file in its own temp directory.
//
// Tokens: a key is hex ("." = the empty key); a key list is comma-joined
// ("-" = empty list); byte strings are hex ("-" = empty); times are decimal int64.
package main

import (
	"bytes"
	"encoding/binary"
	"fmt"
	"math"
	"os"
	"path/filepath"
	"sort"
	"strconv"
	"strings"
	"time"

	"github.com/influxdata/influxdb/v2/tsdb/engine/tsm1"
	"verif/harness/h"
)

const fileName = "000000001-000000001.tsm"

// ---------------------------------------------------------------- tokens

func keyTok(k []byte) string {
	if len(k) == 0 {
		return "."
	}
	return h.Hex(k)
}
func unKey(s string) []byte {
	if s == "." {
		return []byte{}
	}
	return h.MustUnHex(s)
}
func keysTok(ks [][]byte) string {
	if len(ks) == 0 {
		return "-"
	}
	ss := make([]string, len(ks))
	for i, k := range ks {
		ss[i] = keyTok(k)
	}
	return strings.Join(ss, ",")
}
func unKeys(s string) [][]byte {
	if s == "-" {
		return nil
	}
	var out [][]byte
	for _, p := range strings.Split(s, ",") {
		out = append(out, unKey(p))
	}
	return out
}
func i64(s string) int64 { return h.Atoi(s) }
func itoa(v int64) string { return strconv.FormatInt(v, 10) }

func entriesTok(es []tsm1.IndexEntry) string {
	if len(es) == 0 {
		return "-"
	}
	ss := make([]string, len(es))
	for i, e := range es {
		ss[i] = fmt.Sprintf("%d:%d:%d:%d", e.MinTime, e.MaxTime, e.Offset, e.Size)
	}
	return strings.Join(ss, ",")
}
func rangesTok(rs []tsm1.TimeRange) string {
	if len(rs) == 0 {
		return "-"
	}
	ss := make([]string, len(rs))
	for i, r := range rs {
		ss[i] = fmt.Sprintf("%d:%d", r.Min, r.Max)
	}
	return strings.Join(ss, ",")
}

type tomb struct {
	k        []byte
	min, max int64
}

func tombsTok(ts []tomb) string {
	if len(ts) == 0 {
		return "-"
	}
	ss := make([]string, len(ts))
	for i, t := range ts {
		ss[i] = fmt.Sprintf("%s:%d:%d", keyTok(t.k), t.min, t.max)
	}
	return strings.Join(ss, ",")
}
func valuesTok(vs []tsm1.Value) string {
	if len(vs) == 0 {
		return "-"
	}
	ss := make([]string, len(vs))
	for i, v := range vs {
		iv, ok := v.Value().(int64)
		if !ok {
			return "err:notint"
		}
		ss[i] = fmt.Sprintf("%d:%d", v.UnixNano(), iv)
	}
	return strings.Join(ss, ",")
}

// ---------------------------------------------------------------- case runner

type runner struct {
	dir   string
	path  string
	wf    *os.File
	w     tsm1.TSMWriter
	wdead bool // the writer panicked or finished
	r     *tsm1.TSMReader
	bd    tsm1.BatchDeleter
	ts    *tsm1.Tombstoner // stand-alone tombstoner on its own path
	nsub  int
}

func newRunner() h.CaseRunner {
	dir, err := os.MkdirTemp("", "verif-c08-")
	if err != nil {
		panic(err)
	}
	return &runner{dir: dir, path: filepath.Join(dir, fileName)}
}

// bounded runs f with a deadline: a reader whose lock was left held by a panicking
// call (possible only in a mutated tree) must not block the harness in Close.
func bounded(f func()) bool {
	done := make(chan struct{})
	go func() {
		defer func() { recover(); close(done) }()
		f()
	}()
	select {
	case <-done:
		return true
	case <-time.After(3 * time.Second):
		return false
	}
}

func (c *runner) closeReader() bool {
	r, bd := c.r, c.bd
	c.r, c.bd = nil, nil
	if r == nil {
		return true
	}
	return bounded(func() {
		if bd != nil {
			bd.Rollback()
		}
		r.Close()
	})
}

func (c *runner) Close() {
	c.closeReader()
	if c.w != nil {
		w := c.w
		bounded(func() { w.Close() })
	}
	os.RemoveAll(c.dir)
}

func (c *runner) writer() tsm1.TSMWriter {
	if c.w == nil && !c.wdead {
		f, err := os.OpenFile(c.path, os.O_CREATE|os.O_RDWR|os.O_TRUNC, 0666)
		if err != nil {
			panic(err)
		}
		w, err := tsm1.NewTSMWriter(f)
		if err != nil {
			panic(err)
		}
		c.wf, c.w = f, w
	}
	return c.w
}

func werr(err error) string {
	switch {
	case err == nil:
		return "ok"
	case err == tsm1.ErrMaxKeyLengthExceeded:
		return "err:maxkey"
	case err == tsm1.ErrMaxBlocksExceeded:
		return "err:maxblocks"
	case err == tsm1.ErrNoValues:
		return "err:novalues"
	case strings.HasPrefix(err.Error(), "unknown block type"):
		return "err:blocktype"
	case strings.Contains(err.Error(), "exceeds max index entries"):
		return "err:maxentries"
	}
	return "err:other"
}

// guarded runs one writer call; the documented panic of directIndex.Add
// (keys out of order) is an answer, anything else propagates.
func (c *runner) guarded(f func() error) (ans string) {
	defer func() {
		if r := recover(); r != nil {
			msg := fmt.Sprint(r)
			c.wdead = true
			if c.w != nil {
				c.w.Close()
				c.w = nil
			}
			if strings.HasPrefix(msg, "keys must be added in sorted order") {
				ans = "panic:unsorted"
				return
			}
			if strings.Contains(msg, "index out of range [0]") {
				ans = "panic:emptyblock"
				return
			}
			panic(r)
		}
	}()
	return werr(f())
}

func intValues(times, vals []int64) tsm1.Values {
	vs := make(tsm1.Values, len(times))
	for i := range times {
		vs[i] = tsm1.NewIntegerValue(times[i], vals[i])
	}
	return vs
}

func (c *runner) walkFresh(path string) string {
	var out []tomb
	t := tsm1.NewTombstoner(path, nil)
	if err := t.Walk(func(ts tsm1.Tombstone) error {
		out = append(out, tomb{append([]byte(nil), ts.Key...), ts.Min, ts.Max})
		return nil
	}); err != nil {
		return "err:walk"
	}
	return tombsTok(out)
}

func tombstonePath(tsmPath string) string {
	return strings.TrimSuffix(tsmPath, ".tsm") + ".tombstone"
}

func readFileOrNil(p string) ([]byte, bool) {
	b, err := os.ReadFile(p)
	if err != nil {
		return nil, false
	}
	return b, true
}

func (c *runner) open() string {
	if c.r != nil {
		return "err:already-open"
	}
	f, err := os.Open(c.path)
	if err != nil {
		return "err:nofile"
	}
	r, err := tsm1.NewTSMReader(f)
	if err != nil {
		f.Close()
		return "err:" + classifyOpenErr(err)
	}
	c.r = r
	return "ok"
}

func classifyOpenErr(err error) string {
	s := err.Error()
	switch {
	case strings.Contains(s, "invalid indexStart"):
		return "indexstart"
	case strings.Contains(s, "byte slice too small"):
		return "toosmall"
	case strings.Contains(s, "magic number"), strings.Contains(s, "can only read from tsm file"):
		return "magic"
	case strings.Contains(s, "version"):
		return "version"
	case strings.Contains(s, "indirectIndex"):
		return "index"
	case strings.Contains(s, "tombstones"):
		return "tombstones"
	}
	return "other"
}

// crash builds, from the tombstone file before (Fold) and after (Fnew) a
// committed range delete, every on-disk state a crash inside
// prepareV4 … commit can leave: <tombstone = Fold, tombstone.tmp = any prefix of
// Fnew> (the tmp file is append-only and ends up as Fnew) and, once the rename
// happened, <tombstone = Fnew>.  Each state is re-opened with the real reader.
func (c *runner) crash(keys [][]byte, min, max int64, step int) string {
	if c.r == nil {
		return "err:closed"
	}
	tp := tombstonePath(c.path)
	fold, hadOld := readFileOrNil(tp)
	oldWalk := c.walkFresh(c.path)

	bd := c.r.BatchDelete()
	if err := bd.DeleteRange(keys, min, max); err != nil {
		bd.Rollback()
		return "err:deleterange"
	}
	inflight, hadTmp := readFileOrNil(tp + ".tmp")
	if err := bd.Commit(); err != nil {
		return "err:commit"
	}
	fnew, hasNew := readFileOrNil(tp)
	newWalk := c.walkFresh(c.path)
	pfx := !hadTmp || (hasNew && bytes.HasPrefix(fnew, inflight))
	if hadTmp && hadOld && !bytes.HasPrefix(inflight, fold) && len(inflight) >= len(fold) {
		pfx = false
	}

	var outs []string
	add := func(o string) {
		if len(outs) == 0 || outs[len(outs)-1] != o {
			outs = append(outs, o)
		}
	}
	state := func(tombstone []byte, hasTomb bool, tmp []byte, hasTmp bool, cleanup bool, redelete bool) string {
		c.nsub++
		sub := filepath.Join(c.dir, fmt.Sprintf("crash%d", c.nsub))
		if err := os.Mkdir(sub, 0777); err != nil {
			return "err:mkdir"
		}
		defer os.RemoveAll(sub)
		p := filepath.Join(sub, fileName)
		if err := os.Link(c.path, p); err != nil {
			return "err:link"
		}
		if hasTomb {
			os.WriteFile(tombstonePath(p), tombstone, 0666)
		}
		if hasTmp {
			os.WriteFile(tombstonePath(p)+".tmp", tmp, 0666)
		}
		if cleanup {
			if err := tsm1.VerifCleanupTempFiles(sub); err != nil {
				return "err:cleanup"
			}
		}
		f, err := os.Open(p)
		if err != nil {
			return "err:open"
		}
		r, err := tsm1.NewTSMReader(f)
		if err != nil {
			f.Close()
			return "err:reader:" + classifyOpenErr(err)
		}
		// what the re-opened reader applied = what a fresh Walk of the file yields
		w := c.walkFresh(p)
		// and the reader must be usable for a further delete once the tmp file was cleaned up
		if cleanup && redelete && r.KeyCount() > 0 {
			k, _ := r.KeyAt(0)
			mn, _ := r.TimeRange()
			if err := r.DeleteRange([][]byte{append([]byte(nil), k...)}, mn, mn); err != nil {
				w = "err:redelete"
			}
		}
		r.Close()
		return w
	}
	if hasNew && !bytes.Equal(fnew, fold) {
		cuts := map[int]bool{}
		for i := 0; i <= len(fnew); i += step {
			cuts[i] = true
		}
		for _, b := range []int{0, 1, 3, 4, 5, len(fold) - 1, len(fold), len(fold) + 1, len(fold) + 4, len(fold) + 10, len(fnew) - 8, len(fnew) - 1, len(fnew)} {
			if b >= 0 && b <= len(fnew) {
				cuts[b] = true
			}
		}
		var cs []int
		for k := range cuts {
			cs = append(cs, k)
		}
		sort.Ints(cs)
		for i, cut := range cs {
			// a further delete (tmp create, fsync, rename) is tried on a few of the cleaned-up states only: it is slow
			add(state(fold, hadOld, fnew[:cut], true, i%2 == 0, i == 0 || i == (len(cs)/4)*2 || i >= len(cs)-2))
		}
		add(state(fnew, true, nil, false, true, true))
	} else {
		add(state(fold, hadOld, nil, false, true, true))
	}
	return fmt.Sprintf("pfx=%s old=%s new=%s outs=%s", h.B(pfx), oldWalk, newWalk, strings.Join(outs, "|"))
}

func (c *runner) Op(t []string) string {
	if len(t) == 0 {
		return "bad-op"
	}
	switch t[0] {
	// ------------------------------------------------------------ writer
	case "wb": // wb key min max block
		if len(t) != 5 {
			return "bad-op"
		}
		if c.wdead {
			return "dead"
		}
		w := c.writer()
		return c.guarded(func() error { return w.WriteBlock(unKey(t[1]), i64(t[2]), i64(t[3]), h.MustUnHex(t[4])) })
	case "w": // w key block times vals   (Write of integer values; block = their encoding, for the model)
		if len(t) != 5 {
			return "bad-op"
		}
		if c.wdead {
			return "dead"
		}
		w := c.writer()
		times, vals := h.ParseInts(t[3]), h.ParseInts(t[4])
		if len(times) != len(vals) {
			return "bad-op"
		}
		return c.guarded(func() error { return w.Write(unKey(t[1]), intValues(times, vals)) })
	case "wbv": // wbv key block times vals  (WriteBlock of an encoded integer block, min/max = first/last time)
		if len(t) != 5 {
			return "bad-op"
		}
		if c.wdead {
			return "dead"
		}
		w := c.writer()
		times := h.ParseInts(t[3])
		if len(times) == 0 || len(times) != len(h.ParseInts(t[4])) {
			return "bad-op"
		}
		return c.guarded(func() error {
			return w.WriteBlock(unKey(t[1]), times[0], times[len(times)-1], h.MustUnHex(t[2]))
		})
	case "wbn": // wbn key count t0 step block : count blocks [t0+i*step, t0+i*step+step-1]
		if len(t) != 6 {
			return "bad-op"
		}
		if c.wdead {
			return "dead"
		}
		w := c.writer()
		key, n, t0, step, blk := unKey(t[1]), int(i64(t[2])), i64(t[3]), i64(t[4]), h.MustUnHex(t[5])
		var outs []string
		last, cnt := "", 0
		flush := func() {
			if cnt > 0 {
				outs = append(outs, fmt.Sprintf("%s*%d", last, cnt))
			}
		}
		for i := 0; i < n && !c.wdead; i++ {
			lo := t0 + int64(i)*step
			a := c.guarded(func() error { return w.WriteBlock(key, lo, lo+step-1, blk) })
			if a != last {
				flush()
				last, cnt = a, 0
			}
			cnt++
		}
		flush()
		return h.Join(outs)
	case "wsize":
		if c.wdead {
			return "nil"
		}
		return strconv.FormatUint(uint64(c.writer().Size()), 10)
	case "wi": // WriteIndex + Close
		if c.wdead {
			return "dead"
		}
		w := c.writer()
		err := w.WriteIndex()
		c.wdead = true
		cerr := w.Close()
		c.w = nil
		if err == nil && cerr != nil {
			return "err:close"
		}
		return werr(err)
	// ------------------------------------------------------------ raw file
	case "file":
		b, ok := readFileOrNil(c.path)
		if !ok {
			return "nil"
		}
		return h.Hex(b)
	case "index": // the index section located through the footer
		b, ok := readFileOrNil(c.path)
		if !ok || len(b) < 13 {
			return "nil"
		}
		ofs := binary.BigEndian.Uint64(b[len(b)-8:])
		if ofs > uint64(len(b)-8) {
			return "nil"
		}
		return h.Hex(b[ofs : len(b)-8])
	case "filelen":
		b, ok := readFileOrNil(c.path)
		if !ok {
			return "nil"
		}
		return strconv.Itoa(len(b))
	// ------------------------------------------------------------ reader
	case "open":
		return c.open()
	case "close":
		if c.r == nil {
			return "err:closed"
		}
		if !c.closeReader() {
			return "err:close-blocked"
		}
		return "ok"
	case "reopen":
		if c.r == nil {
			return "err:closed"
		}
		if !c.closeReader() {
			return "err:close-blocked"
		}
		return c.open()
	}
	if strings.HasPrefix(t[0], "ts.") {
		return c.tsOp(t)
	}
	if c.r == nil {
		return "err:closed"
	}
	r := c.r
	switch t[0] {
	case "keycount":
		return strconv.Itoa(r.KeyCount())
	case "keyat":
		if len(t) != 2 {
			return "bad-op"
		}
		k, typ := r.KeyAt(int(i64(t[1])))
		if k == nil {
			return "nil"
		}
		return keyTok(k) + " " + strconv.Itoa(int(typ))
	case "key":
		if len(t) != 2 {
			return "bad-op"
		}
		k, typ, es := r.Key(int(i64(t[1])), nil)
		if k == nil {
			return "nil"
		}
		return keyTok(k) + " " + strconv.Itoa(int(typ)) + " " + entriesTok(es)
	case "seek":
		if len(t) != 2 {
			return "bad-op"
		}
		return strconv.Itoa(r.Seek(unKey(t[1])))
	case "contains":
		if len(t) != 2 {
			return "bad-op"
		}
		return h.B(r.Contains(unKey(t[1])))
	case "containsvalue":
		if len(t) != 3 {
			return "bad-op"
		}
		return h.B(r.ContainsValue(unKey(t[1]), i64(t[2])))
	case "entries":
		if len(t) != 2 {
			return "bad-op"
		}
		return entriesTok(r.Entries(unKey(t[1])))
	case "entry":
		if len(t) != 3 {
			return "bad-op"
		}
		e := r.VerifIndex().Entry(unKey(t[1]), i64(t[2]))
		if e == nil {
			return "nil"
		}
		return entriesTok([]tsm1.IndexEntry{*e})
	case "type":
		if len(t) != 2 {
			return "bad-op"
		}
		typ, err := r.Type(unKey(t[1]))
		if err != nil {
			return "err:nokey"
		}
		return strconv.Itoa(int(typ))
	case "timerange":
		a, b := r.TimeRange()
		return itoa(a) + " " + itoa(b)
	case "keyrange":
		a, b := r.KeyRange()
		return keyTok(a) + " " + keyTok(b)
	case "overlapstime":
		if len(t) != 3 {
			return "bad-op"
		}
		return h.B(r.OverlapsTimeRange(i64(t[1]), i64(t[2])))
	case "overlapskey":
		if len(t) != 3 {
			return "bad-op"
		}
		return h.B(r.OverlapsKeyRange(unKey(t[1]), unKey(t[2])))
	case "tombrange":
		if len(t) != 2 {
			return "bad-op"
		}
		return rangesTok(r.TombstoneRange(unKey(t[1])))
	case "hastomb":
		return h.B(r.HasTombstones())
	case "readbytes": // readbytes key i : checksum and bytes of the i-th block of key
		if len(t) != 3 {
			return "bad-op"
		}
		es := r.Entries(unKey(t[1]))
		i := int(i64(t[2]))
		if i < 0 || i >= len(es) {
			return "nil"
		}
		crc, b, err := r.ReadBytes(&es[i], nil)
		if err != nil {
			return "err:read"
		}
		return strconv.FormatUint(uint64(crc), 10) + " " + h.Hex(b)
	case "readall":
		if len(t) != 2 {
			return "bad-op"
		}
		vs, err := r.ReadAll(unKey(t[1]))
		if err != nil {
			return "err:decode"
		}
		return valuesTok(vs)
	case "read":
		if len(t) != 3 {
			return "bad-op"
		}
		vs, err := r.Read(unKey(t[1]), i64(t[2]))
		if err != nil {
			return "err:decode"
		}
		return valuesTok(vs)
	case "iter": // every block of the file through the BlockIterator
		it := r.BlockIterator()
		var ss []string
		for it.Next() {
			k, lo, hi, typ, crc, b, err := it.Read()
			if err != nil {
				return "err:iter"
			}
			ss = append(ss, fmt.Sprintf("%s/%d/%d/%d/%d/%s", keyTok(k), lo, hi, typ, crc, h.Hex(b)))
		}
		if it.Err() != nil {
			return "err:iter"
		}
		if len(ss) == 0 {
			return "-"
		}
		return strings.Join(ss, ";")
	case "del":
		if len(t) != 2 {
			return "bad-op"
		}
		if c.bd != nil {
			return "err:batch-open"
		}
		if err := r.Delete(unKeys(t[1])); err != nil {
			return "err:delete"
		}
		return "ok"
	case "delrange":
		if len(t) != 4 {
			return "bad-op"
		}
		if c.bd != nil {
			return "err:batch-open"
		}
		if err := r.DeleteRange(unKeys(t[1]), i64(t[2]), i64(t[3])); err != nil {
			return "err:delete"
		}
		return "ok"
	case "bd.begin":
		if c.bd != nil {
			return "err:batch-open"
		}
		c.bd = r.BatchDelete()
		return "ok"
	case "bd.range":
		if len(t) != 4 {
			return "bad-op"
		}
		if c.bd == nil {
			return "err:no-batch"
		}
		if err := c.bd.DeleteRange(unKeys(t[1]), i64(t[2]), i64(t[3])); err != nil {
			return "err:delete"
		}
		return "ok"
	case "bd.commit", "bd.rollback":
		if c.bd == nil {
			return "err:no-batch"
		}
		var err error
		if t[0] == "bd.commit" {
			err = c.bd.Commit()
		} else {
			err = c.bd.Rollback()
		}
		c.bd = nil
		if err != nil {
			return "err:batch"
		}
		return "ok"
	case "walk":
		return c.walkFresh(c.path)
	case "crash": // crash keys min max step
		if len(t) != 5 {
			return "bad-op"
		}
		if c.bd != nil {
			return "err:batch-open"
		}
		step := int(i64(t[4]))
		if step < 1 {
			return "bad-op"
		}
		return c.crash(unKeys(t[1]), i64(t[2]), i64(t[3]), step)
	}
	return "bad-op"
}

// stand-alone Tombstoner (no filter function) on its own path
func (c *runner) tsOp(t []string) string {
	tsPath := filepath.Join(c.dir, "ts", fileName)
	if t[0] == "ts.new" {
		os.MkdirAll(filepath.Dir(tsPath), 0777)
		if c.ts != nil {
			c.ts.Rollback()
		}
		c.ts = tsm1.NewTombstoner(tsPath, nil)
		return "ok"
	}
	if c.ts == nil {
		return "err:no-ts"
	}
	e := func(err error) string {
		if err != nil {
			if os.IsExist(err) || strings.Contains(err.Error(), "file exists") {
				return "err:exists"
			}
			return "err:other"
		}
		return "ok"
	}
	switch t[0] {
	case "ts.add":
		if len(t) != 2 {
			return "bad-op"
		}
		return e(c.ts.Add(unKeys(t[1])))
	case "ts.addrange":
		if len(t) != 4 {
			return "bad-op"
		}
		return e(c.ts.AddRange(unKeys(t[1]), i64(t[2]), i64(t[3])))
	case "ts.flush":
		return e(c.ts.Flush())
	case "ts.rollback":
		return e(c.ts.Rollback())
	case "ts.delete":
		return e(c.ts.Delete())
	case "ts.has":
		return h.B(c.ts.HasTombstones())
	case "ts.walk":
		var out []tomb
		if err := c.ts.Walk(func(ts tsm1.Tombstone) error {
			out = append(out, tomb{append([]byte(nil), ts.Key...), ts.Min, ts.Max})
			return nil
		}); err != nil {
			return "err:walk"
		}
		return tombsTok(out)
	case "ts.walkfresh":
		return c.walkFresh(tsPath)
	}
	return "bad-op"
}

var _ = math.MaxInt64

// a mutated reader may spin on a block it mis-locates: a short per-op timeout keeps the run bounded
// (the op answers "timeout", which the statement checker reports as a failing input)
func main() { h.Main(h.Harness{Gen: gen, NewCase: newRunner, OpTimeout: 20 * time.Second}) }
