// Harness for C34: drives the real toml.SizeV1/SSizeV1/Size/SSize/Duration text
// forms, directly and through the BurntSushi/toml encoder and decoder.
package main

import (
	"bytes"
	"math"
	"strconv"
	"strings"

	btoml "github.com/BurntSushi/toml"
	itoml "github.com/influxdata/influxdb/v2/toml"
	"verif/harness/h"
)

func res[T any](v T, err error, f func(T) string) string {
	if err != nil {
		return "err"
	}
	return f(v)
}

func fu(v uint64) string { return strconv.FormatUint(v, 10) }
func fi(v int64) string  { return strconv.FormatInt(v, 10) }

func tomlRT[T any](in T, out *T, get func(*T) string) string {
	type cfg struct{ V T }
	var buf bytes.Buffer
	if err := btoml.NewEncoder(&buf).Encode(cfg{V: in}); err != nil {
		return "encode-error err"
	}
	var got cfg
	_, err := btoml.Decode(buf.String(), &got)
	if err != nil {
		return h.Hex(buf.Bytes()) + " err"
	}
	return h.Hex(buf.Bytes()) + " " + get(&got.V)
}

func op(t []string) string {
	if len(t) != 2 {
		return "bad-op"
	}
	switch t[0] {
	case "rt1u", "tomlu", "toml1u":
		x, err := strconv.ParseUint(t[1], 10, 64)
		if err != nil {
			return "bad-op"
		}
		switch t[0] {
		case "rt1u":
			txt, _ := itoml.SizeV1(x).MarshalText()
			var back itoml.SizeV1
			e := back.UnmarshalText(txt)
			return h.Hex(txt) + " " + res(back, e, func(v itoml.SizeV1) string { return fu(uint64(v)) })
		case "tomlu":
			var o itoml.Size
			return tomlRT(itoml.Size(x), &o, func(v *itoml.Size) string { return fu(uint64(*v)) })
		default:
			var o itoml.SizeV1
			return tomlRT(itoml.SizeV1(x), &o, func(v *itoml.SizeV1) string { return fu(uint64(*v)) })
		}
	case "rt1s", "tomls", "toml1s", "drt", "dtoml":
		x, err := strconv.ParseInt(t[1], 10, 64)
		if err != nil {
			return "bad-op"
		}
		switch t[0] {
		case "rt1s":
			txt, _ := itoml.SSizeV1(x).MarshalText()
			var back itoml.SSizeV1
			e := back.UnmarshalText(txt)
			return h.Hex(txt) + " " + res(back, e, func(v itoml.SSizeV1) string { return fi(int64(v)) })
		case "tomls":
			var o itoml.SSize
			return tomlRT(itoml.SSize(x), &o, func(v *itoml.SSize) string { return fi(int64(*v)) })
		case "toml1s":
			var o itoml.SSizeV1
			return tomlRT(itoml.SSizeV1(x), &o, func(v *itoml.SSizeV1) string { return fi(int64(*v)) })
		case "drt":
			txt, _ := itoml.Duration(x).MarshalText()
			var back itoml.Duration
			e := back.UnmarshalText(txt)
			return h.Hex(txt) + " " + res(back, e, func(v itoml.Duration) string { return fi(int64(v)) })
		default:
			var o itoml.Duration
			return tomlRT(itoml.Duration(x), &o, func(v *itoml.Duration) string { return fi(int64(*v)) })
		}
	}
	b, err := h.UnHex(t[1])
	if err != nil {
		return "bad-op"
	}
	switch t[0] {
	case "u1u":
		var s itoml.SizeV1
		e := s.UnmarshalText(b)
		return res(s, e, func(v itoml.SizeV1) string { return fu(uint64(v)) })
	case "u1s":
		var s itoml.SSizeV1
		e := s.UnmarshalText(b)
		return res(s, e, func(v itoml.SSizeV1) string { return fi(int64(v)) })
	case "u2u":
		var s itoml.Size
		e := s.UnmarshalText(b)
		return res(s, e, func(v itoml.Size) string { return fu(uint64(v)) })
	case "u2s":
		var s itoml.SSize
		e := s.UnmarshalText(b)
		return res(s, e, func(v itoml.SSize) string { return fi(int64(v)) })
	case "dp":
		var d itoml.Duration
		e := d.UnmarshalText(b)
		return res(d, e, func(v itoml.Duration) string { return fi(int64(v)) })
	case "rw":
		out, e := itoml.VerifRewriteBareIECSuffix(b)
		if e != nil {
			return "err"
		}
		return h.Hex(out)
	}
	return "bad-op"
}

// ---------------------------------------------------------------- generators

func u64val(r *h.Rand) uint64 {
	switch r.Intn(10) {
	case 0:
		return h.Pick(r, []uint64{0, 1, 9, 10, 1023, 1024, 1025, 1 << 20, 1<<20 + 1, 1 << 30, 1<<30 - 1, 3 << 30,
			25_000_000, 1<<53 - 1, 1 << 53, 1<<53 + 1, 1<<53 + 2, 1<<53 + 3, 1<<63 - 1, 1 << 63, 1<<63 + 1,
			1<<63 + 1<<10, math.MaxUint64, math.MaxUint64 - 1, math.MaxUint64 - 1023, math.MaxUint64 - 1024 + 1,
			1 << 62, 1 << 60, 1<<64 - 1<<30, 1<<64 - 1<<20, 1<<64 - 1<<10, 9007199254740993, 1<<54 + 2, 1<<54 + 1})
	case 1:
		return uint64(1) << uint(r.Intn(64))
	case 2:
		return (uint64(1) << uint(r.Intn(64))) - 1 + uint64(r.Intn(3))
	case 3:
		return (r.Uint64() >> uint(r.Intn(64))) << uint(h.Pick(r, []int{10, 20, 30, 0, 5}))
	case 4:
		return 1<<53 + r.Uint64()%(1<<12)
	case 5:
		return r.Uint64() >> uint(r.Intn(64))
	case 6:
		return math.MaxUint64 - r.Uint64()%(1<<12)
	default:
		return r.Uint64()
	}
}

func i64val(r *h.Rand) int64 {
	switch r.Intn(8) {
	case 0:
		return h.Pick(r, []int64{0, 1, -1, 1024, -1024, 1 << 30, -(1 << 30), 1 << 50, -(1 << 50), math.MaxInt64, math.MinInt64,
			math.MaxInt64 - 1, math.MinInt64 + 1, 1<<53 + 1, -(1<<53 + 1), 1 << 62, -(1 << 62), math.MinInt64 + 1024,
			-(1 << 63) + (1 << 30), 1<<63 - 1<<30, -9007199254740993, 9007199254740993})
	case 1:
		return -int64(u64val(r) >> 1)
	default:
		return int64(u64val(r))
	}
}

func durval(r *h.Rand) int64 {
	switch r.Intn(8) {
	case 0:
		return h.Pick(r, []int64{0, 1, -1, 999, 1000, 1001, 999999, 1000000, 1000001, 999999999, 1000000000, 1000000001,
			1500, 1500000, 1500000000, 59999999999, 60000000000, 3599999999999, 3600000000000, 3600000000001,
			math.MaxInt64, math.MinInt64, math.MaxInt64 - 1, math.MinInt64 + 1, 100, 1010, 1100000, 1000100, 90000000000,
			3660000000000, 3600000000000 * 24, 1234567890123456789, -1234567890123456789, 10, 100000, 100000000,
			60000000000 - 1, 7200000000000, 86400000000000 * 365})
	case 1:
		u := []int64{1, 1000, 1000000, 1000000000, 60000000000, 3600000000000}
		return h.Pick(r, u)*int64(r.Intn(2000)) + h.Pick(r, u)*int64(r.Intn(100))
	case 2:
		return int64(r.Uint64()>>uint(r.Intn(64))) * int64(1-2*r.Intn(2))
	case 3:
		p := int64(1)
		for i := r.Intn(19); i > 0; i-- {
			p *= 10
		}
		return p*int64(1+r.Intn(9)) + int64(r.Intn(3)) - 1
	default:
		return i64val(r)
	}
}

var suffixes = []string{"", "k", "K", "m", "M", "g", "G", "b", "B", "kb", "KB", "Kb", "mb", "MB", "gb", "GB", "tb", "pb", "eb", "EB",
	"kib", "KiB", "KIB", "mib", "MiB", "gib", "GiB", "tib", "TiB", "pib", "eib", "EiB", "ki", "mi", "gi", "ti", "pi", "ei", "t", "p", "e", "T", "P", "E",
	"x", "kk", "bb", "kbb", "ib", "bytes", "kilobytes", "zb", "kiB ", "µ", "Ki", "İ", "K", "Kib"}

func digitsNear(r *h.Rand) string {
	// integer strings whose product with a multiplier is near a boundary, or plain interesting numbers
	switch r.Intn(7) {
	case 0:
		return fu(u64val(r))
	case 1: // boundary / multiplier
		bounds := []uint64{1 << 53, 1 << 63, math.MaxUint64, 1<<63 - 1}
		mults := []uint64{1000, 1024, 1000000, 1 << 20, 1000000000, 1 << 30, 1000000000000, 1 << 40, 1000000000000000, 1 << 50, 1000000000000000000, 1 << 60}
		q := h.Pick(r, bounds) / h.Pick(r, mults)
		return fu(q + uint64(r.Intn(5)) - 2)
	case 2: // beyond uint64
		return h.Pick(r, []string{"18446744073709551616", "18446744073709551617", "36893488147419103232", "99999999999999999999",
			"9223372036854775808", "9223372036854775809", "9223372036854776832", "9223372036854776833", "9223372036854777856",
			"340282366920938463463374607431768211456", "1" + strings.Repeat("0", 30), "1" + strings.Repeat("0", 310), strings.Repeat("9", 400)})
	case 3:
		return strings.Repeat("0", r.Intn(4)) + fu(uint64(r.Intn(5000)))
	case 4:
		return fu(r.Uint64() >> uint(r.Intn(64)))
	case 5:
		return fu(uint64(r.Intn(20)))
	default:
		return fu(u64val(r) >> uint(r.Intn(40)))
	}
}

func sizeText(r *h.Rand) string {
	switch r.Intn(16) {
	case 0, 1, 2, 3, 4: // documented shape: [-]digits [space] suffix
		s := ""
		if r.Chance(0.25) {
			s = "-"
		}
		s += digitsNear(r)
		if r.Chance(0.3) {
			s += strings.Repeat(" ", 1+r.Intn(2))
		}
		return s + h.Pick(r, suffixes)
	case 5: // fractions
		return h.Pick(r, []string{"1.5", "0.5", ".5", "1.", "1.5.5", "1.25", "1.999", "0.1", "1e3", "2.5", "1023.9999", "0.0009765625", "1.0000000001", "8.0", "7.99999999999999999999", "15.999999999999999", "17.99999999999999", "."}) +
			h.Pick(r, []string{"", " "}) + h.Pick(r, suffixes)
	case 6: // commas
		return h.Pick(r, []string{"1,000", "1,000,000", ",1", "1,", ",", "1,0.5", "1.5,0", "12,34", ",,1,,"}) + h.Pick(r, suffixes)
	case 7: // whitespace variants around the 1.x patterns
		ws := []string{" ", "\t", "\n", "\r", "\f", "\v", "  ", " \n", "\n ", " ", "\u0085", " "}
		s := h.Pick(r, []string{"", h.Pick(r, ws)}) + h.Pick(r, []string{"", "-", "+"}) + digitsNear(r)
		s += h.Pick(r, []string{"", h.Pick(r, ws), h.Pick(r, ws) + h.Pick(r, ws)})
		s += h.Pick(r, []string{"k", "K", "m", "g", "G", "kb", "kib", "", "b"})
		s += h.Pick(r, []string{"", "", h.Pick(r, ws)})
		return s
	case 8: // signs
		return h.Pick(r, []string{"+", "-", "--", "+-", "-+", " -", "- ", "−"}) + digitsNear(r) + h.Pick(r, suffixes)
	case 9: // embedded newline / odd prefixes before a bare suffix (the rewrite regex)
		return h.Pick(r, []string{"1\n2", "\n1", "1\n", "x1", "1x", "1x ", "a b 1", "1 2", "1\n\n", "1.5", "1\t\t", "√1", "1√", "１", "٣", ""}) +
			h.Pick(r, []string{"", " ", "\n", " \n "}) + h.Pick(r, []string{"k", "K", "m", "M", "g", "G", "kb", "b", ""}) + h.Pick(r, []string{"", " ", "\n", "x"})
	case 10: // random printable garbage
		n := r.Intn(12)
		b := make([]byte, n)
		al := "0123456789 .,-+kKmMgGbBiIeEtTpP\n\tx"
		for i := range b {
			b[i] = al[r.Intn(len(al))]
		}
		return string(b)
	case 11: // random bytes
		n := r.Intn(8)
		b := make([]byte, n)
		for i := range b {
			b[i] = byte(r.Intn(256))
		}
		return string(b)
	case 12: // what the marshalers write
		if r.Bool() {
			t, _ := itoml.SizeV1(u64val(r)).MarshalText()
			return string(t)
		}
		t, _ := itoml.SSizeV1(i64val(r)).MarshalText()
		return string(t)
	case 13: // plain integers (what the TOML decoder hands to Size/SSize)
		if r.Bool() {
			return fi(i64val(r))
		}
		return fu(u64val(r))
	default:
		return digitsNear(r) + h.Pick(r, []string{"k", "m", "g", "K", "M", "G"})
	}
}

var units = []string{"ns", "us", "µs", "μs", "ms", "s", "m", "h"}

func durText(r *h.Rand) string {
	num := func() string {
		switch r.Intn(8) {
		case 0:
			return digitsNear(r)
		case 1:
			return fu(uint64(r.Intn(100))) + "." + fu(uint64(r.Intn(1000000)))
		case 2:
			return "." + fu(uint64(r.Intn(1000)))
		case 3:
			return fu(uint64(r.Intn(100))) + "."
		case 4:
			return h.Pick(r, []string{"9223372036854775807", "9223372036854775808", "9223372036854775809", "2562047", "2562048", "153722867", "153722868",
				"9223372036", "9223372037", "9223372036854", "9223372036855", "9223372036854775", "9223372036854776", "0.9223372036854775807", "1.00000000000000000001",
				"0.000000001", "0.0000000001", "1.9999999999", "9223372036.854775807", "9223372036.854775808", "16.854775807", "16.854775808", "0.1", "0.3", "0.7", "2.3", "1.15",
				"0.99999999999999999999", "1.8446744073709551616", "123456789.123456789123456789"})
		default:
			return fu(uint64(r.Intn(5000)))
		}
	}
	switch r.Intn(10) {
	case 0: // what String writes
		return itoml.Duration(durval(r)).String()
	case 1:
		return h.Pick(r, []string{"", "0", "+0", "-0", "-", "+", "1", "s", ".s", "-.s", "1.s", ".1s", "1 s", " 1s", "1s ", "1S", "1d", "1w", "1hr", "1e3s", "0x1s", "1_0s", "１s",
			"9223372036854775808ns9223372036854775808ns", "9223372036854775808ns9223372036854775808ns5ns", "-9223372036854775808ns", "9223372036854775807ns1ns",
			"4611686018427387904ns4611686018427387904ns", "4611686018427387904ns4611686018427387903ns", "-4611686018427387904ns4611686018427387904ns",
			"2562047h47m16.854775807s", "2562047h47m16.854775808s", "-2562047h47m16.854775808s", "2562047h47m17s", "2562048h", "1h1h", "1s1h", "1.5h", "0.5m", "1.5µs", "1.5μs", "1.5us", "1µ", "µs", "1µss"})
	default:
		s := h.Pick(r, []string{"", "", "-", "+"})
		for i := 1 + r.Intn(3); i > 0; i-- {
			s += num() + h.Pick(r, units)
		}
		return s
	}
}

func gen(r *h.Rand, tier string, emit func([]string)) {
	scale := 1
	if tier == "thorough" {
		scale = 10
	}
	for c := 0; c < 60*scale; c++ {
		var ops []string
		for i := 0; i < 200; i++ {
			switch r.Intn(20) {
			case 0:
				ops = append(ops, "rt1u "+fu(u64val(r)))
			case 1:
				ops = append(ops, "rt1s "+fi(i64val(r)))
			case 2:
				ops = append(ops, "tomlu "+fu(u64val(r)))
			case 3:
				ops = append(ops, "tomls "+fi(i64val(r)))
			case 4:
				if r.Bool() {
					ops = append(ops, "toml1u "+fu(u64val(r)))
				} else {
					ops = append(ops, "toml1s "+fi(i64val(r)))
				}
			case 5, 6:
				ops = append(ops, "drt "+fi(durval(r)))
			case 7:
				ops = append(ops, "dtoml "+fi(durval(r)))
			case 8, 9, 10:
				ops = append(ops, "dp "+h.HexS(durText(r)))
			case 11:
				ops = append(ops, "rw "+h.HexS(sizeText(r)))
			default:
				ops = append(ops, h.Pick(r, []string{"u1u", "u1s", "u2u", "u2s"})+" "+h.HexS(sizeText(r)))
			}
		}
		emit(ops)
	}
}

func main() { h.Main(h.Harness{Gen: gen, NewCase: h.Stateless(op)}) }
