// Harness for C36: drives the real pkg/rhh, pkg/bloom, pkg/radix and
// tsdb.SeriesIDSet with generated operation sequences.
//
// Every case uses one of the four structures.  Ops (tokens):
//
//	rhh    rnew cap lf | rput key hash val | rget key hash | rlen | rcap | rdump | rkeys
//	       rgrow sz | rreset | rdist hash i cap
//	bloom  bnew r m k | bbuf r bytes k | bins r key h0 h1 | bhas r key h0 h1 | bmerge r1 r2
//	       bclone src dst | bbytes r | bkl r
//	radix  tnew | tins key val | tget key | tdel prefix | tmin | tmax | tlen | twalk | tdump
//	idset  snew r ids | sadd r id | saddnl r id | saddmany r ids | srem r id | sremnl r id
//	       shas r id | scard r | smerge r others | smergeip r o | seq a b | sand a b dst
//	       sandnot a b dst | sdiff r o | sint a b | sclone src dst | srt src dst | srtu src dst
//	       sclear r | sslice r | sforeach r | siter r
package main

import (
	"bytes"
	"fmt"
	"sort"
	"strconv"
	"strings"

	"github.com/cespare/xxhash/v2"
	"github.com/influxdata/influxdb/v2/pkg/bloom"
	"github.com/influxdata/influxdb/v2/pkg/radix"
	"github.com/influxdata/influxdb/v2/pkg/rhh"
	"github.com/influxdata/influxdb/v2/tsdb"
	"verif/harness/h"
)

const nReg = 4

type runner struct {
	m  *rhh.HashMap
	bf [nReg]*bloom.Filter
	t  *radix.Tree
	ss [nReg]*tsdb.SeriesIDSet
}

func newCase() h.CaseRunner {
	r := &runner{}
	for i := range r.ss {
		r.ss[i] = tsdb.NewSeriesIDSet()
	}
	return r
}

func (r *runner) Close() {}

// badTok is raised by the token parsers; Op answers "bad-op" for it.
type badTok struct{}

func u64(s string) uint64 {
	v, err := strconv.ParseUint(s, 10, 64)
	if err != nil {
		panic(badTok{})
	}
	return v
}

func atoi(s string) int64 {
	v, err := strconv.ParseInt(s, 10, 64)
	if err != nil {
		panic(badTok{})
	}
	return v
}

func unhex(s string) []byte {
	b, err := h.UnHex(s)
	if err != nil {
		panic(badTok{})
	}
	return b
}

func u64s(s string) []uint64 {
	if s == "-" {
		return nil
	}
	var out []uint64
	for _, p := range strings.Split(s, ",") {
		out = append(out, u64(p))
	}
	return out
}

func showU64s(xs []uint64) string {
	if len(xs) == 0 {
		return "-"
	}
	ss := make([]string, len(xs))
	for i, x := range xs {
		ss[i] = strconv.FormatUint(x, 10)
	}
	return strings.Join(ss, ",")
}

func reg(s string) int {
	v := int(atoi(s))
	if v < 0 || v >= nReg {
		panic(badTok{})
	}
	return v
}

func (r *runner) Op(t []string) (ans string) {
	defer func() {
		if e := recover(); e != nil {
			if _, ok := e.(badTok); ok {
				ans = "bad-op"
				return
			}
			panic(e)
		}
	}()
	if len(t) == 0 || arity[t[0]] != len(t) {
		return "bad-op"
	}
	switch t[0][0] {
	case 'r':
		return r.opRHH(t)
	case 'b':
		return r.opBloom(t)
	case 't':
		return r.opRadix(t)
	case 's':
		return r.opSet(t)
	}
	return "bad-op"
}

// arity: number of tokens of every op (checked before anything else, like the driver's parser)
var arity = map[string]int{
	"rnew": 3, "rput": 4, "rget": 3, "rlen": 1, "rcap": 1, "rdump": 1, "rkeys": 1, "rgrow": 2, "rreset": 1, "rdist": 4,
	"bnew": 4, "bbuf": 4, "bins": 5, "bhas": 5, "bmerge": 3, "bclone": 3, "bbytes": 2, "bkl": 2,
	"tnew": 1, "tins": 3, "tget": 2, "tdel": 2, "tmin": 1, "tmax": 1, "tlen": 1, "twalk": 1, "tdump": 1,
	"snew": 3, "sadd": 3, "saddnl": 3, "saddmany": 3, "srem": 3, "sremnl": 3, "shas": 3, "scard": 2, "smerge": 3,
	"smergeip": 3, "seq": 3, "sand": 4, "sandnot": 4, "sdiff": 3, "sint": 3, "sclone": 3, "srt": 3, "srtu": 3,
	"sclear": 2, "sslice": 2, "sforeach": 2, "siter": 2,
}

// ---------------------------------------------------------------- rhh

func (r *runner) opRHH(t []string) string {
	if t[0] == "rnew" && len(t) == 3 {
		r.m = rhh.NewHashMap(rhh.Options{Capacity: atoi(t[1]), LoadFactor: int(atoi(t[2]))})
		return "ok"
	}
	if t[0] == "rdist" && len(t) == 4 {
		return strconv.FormatInt(rhh.Dist(atoi(t[1]), atoi(t[2]), atoi(t[3])), 10)
	}
	if r.m == nil {
		return "nomap"
	}
	m := r.m
	switch {
	case t[0] == "rput" && len(t) == 4:
		key := unhex(t[1])
		if hk := rhh.HashKey(key); hk != atoi(t[2]) {
			return "hashdiff:" + strconv.FormatInt(hk, 10)
		}
		m.Put(key, atoi(t[3]))
		return "ok"
	case t[0] == "rget" && len(t) == 3:
		key := unhex(t[1])
		if hk := rhh.HashKey(key); hk != atoi(t[2]) {
			return "hashdiff:" + strconv.FormatInt(hk, 10)
		}
		v := m.Get(key)
		if v == nil {
			return "nil"
		}
		return strconv.FormatInt(v.(int64), 10)
	case t[0] == "rlen" && len(t) == 1:
		return strconv.FormatInt(m.Len(), 10)
	case t[0] == "rcap" && len(t) == 1:
		return strconv.FormatInt(m.Cap(), 10)
	case t[0] == "rdump" && len(t) == 1:
		var sb strings.Builder
		for i := int64(0); i < m.Cap(); i++ {
			if i > 0 {
				sb.WriteByte(',')
			}
			k, v := m.Elem(i)
			if v == nil {
				sb.WriteByte('_')
			} else {
				sb.WriteString(h.Hex(k) + ":" + strconv.FormatInt(v.(int64), 10))
			}
		}
		return sb.String()
	case t[0] == "rkeys" && len(t) == 1:
		ks := m.Keys()
		ss := make([]string, len(ks))
		for i, k := range ks {
			ss[i] = h.Hex(k)
		}
		return strconv.Itoa(len(ss)) + " " + h.Join(ss)
	case t[0] == "rgrow" && len(t) == 2:
		m.Grow(atoi(t[1]))
		return "ok"
	case t[0] == "rreset" && len(t) == 1:
		m.Reset()
		return "ok"
	}
	return "bad-op"
}

// ---------------------------------------------------------------- bloom

// bloomHash mirrors the inputs of bloom.Filter.hash: xxhash of the data and
// xxhash of the data with its last byte zeroed (0 for empty data).  The model
// receives these two numbers; the positions are computed by the model.
func bloomHash(data []byte) (uint64, uint64) {
	v1 := xxhash.Sum64(data)
	var v2 uint64
	if len(data) > 0 {
		c := append([]byte(nil), data...)
		c[len(c)-1] = 0
		v2 = xxhash.Sum64(c)
	}
	return v1, v2
}

func (r *runner) opBloom(t []string) string {
	switch {
	case t[0] == "bnew" && len(t) == 4:
		f := bloom.NewFilter(u64(t[2]), u64(t[3]))
		r.bf[reg(t[1])] = f
		return "ok " + strconv.Itoa(int(f.Len()))
	case t[0] == "bbuf" && len(t) == 4:
		f, err := bloom.NewFilterBuffer(unhex(t[2]), u64(t[3]))
		if err != nil {
			return "err"
		}
		r.bf[reg(t[1])] = f
		return "ok " + strconv.Itoa(int(f.Len()))
	}
	if len(t) < 2 {
		return "bad-op"
	}
	f := r.bf[reg(t[1])]
	if f == nil {
		return "nofilter"
	}
	switch {
	case t[0] == "bins" && len(t) == 5:
		f.Insert(unhex(t[2]))
		return "ok"
	case t[0] == "bhas" && len(t) == 5:
		return h.B(f.Contains(unhex(t[2])))
	case t[0] == "bmerge" && len(t) == 3:
		o := r.bf[reg(t[2])]
		if o == nil {
			return "nofilter"
		}
		if err := f.Merge(o); err != nil {
			if strings.Contains(err.Error(), "m mismatch") {
				return "err-m"
			}
			return "err-k"
		}
		return "ok"
	case t[0] == "bclone" && len(t) == 3:
		r.bf[reg(t[2])] = f.Clone()
		return "ok"
	case t[0] == "bbytes" && len(t) == 2:
		return h.Hex(f.Bytes())
	case t[0] == "bkl" && len(t) == 2:
		return strconv.FormatUint(f.K(), 10) + " " + strconv.Itoa(int(f.Len()))
	}
	return "bad-op"
}

// ---------------------------------------------------------------- radix

func (r *runner) opRadix(t []string) string {
	if t[0] == "tnew" && len(t) == 1 {
		r.t = radix.New()
		return "ok"
	}
	if r.t == nil {
		return "notree"
	}
	tr := r.t
	switch {
	case t[0] == "tins" && len(t) == 3:
		v, ok := tr.Insert(unhex(t[1]), int(atoi(t[2])))
		return strconv.Itoa(v) + " " + h.B(ok)
	case t[0] == "tget" && len(t) == 2:
		v, ok := tr.Get(unhex(t[1]))
		if !ok {
			return "nil"
		}
		return strconv.Itoa(v)
	case t[0] == "tdel" && len(t) == 2:
		return strconv.Itoa(tr.DeletePrefix(unhex(t[1])))
	case t[0] == "tmin" && len(t) == 1:
		k, v, ok := tr.Minimum()
		if !ok {
			return "nil"
		}
		return h.Hex(k) + " " + strconv.Itoa(v)
	case t[0] == "tmax" && len(t) == 1:
		k, v, ok := tr.Maximum()
		if !ok {
			return "nil"
		}
		return h.Hex(k) + " " + strconv.Itoa(v)
	case t[0] == "tlen" && len(t) == 1:
		return strconv.Itoa(tr.Len())
	case t[0] == "twalk" && len(t) == 1:
		var ss []string
		tr.VerifWalk(func(k []byte, v int) bool {
			ss = append(ss, h.Hex(k)+":"+strconv.Itoa(v))
			return false
		})
		return h.Join(ss)
	case t[0] == "tdump" && len(t) == 1:
		return tr.VerifDump()
	}
	return "bad-op"
}

// ---------------------------------------------------------------- series id set

func (r *runner) opSet(t []string) string {
	if len(t) < 2 {
		return "bad-op"
	}
	s := r.ss[reg(t[1])]
	switch {
	case t[0] == "snew" && len(t) == 3:
		r.ss[reg(t[1])] = tsdb.NewSeriesIDSet(u64s(t[2])...)
		return "ok"
	case t[0] == "sadd" && len(t) == 3:
		s.Add(u64(t[2]))
		return "ok"
	case t[0] == "saddnl" && len(t) == 3:
		s.AddNoLock(u64(t[2]))
		return "ok"
	case t[0] == "saddmany" && len(t) == 3:
		s.AddMany(u64s(t[2])...)
		return "ok"
	case t[0] == "srem" && len(t) == 3:
		s.Remove(u64(t[2]))
		return "ok"
	case t[0] == "sremnl" && len(t) == 3:
		s.RemoveNoLock(u64(t[2]))
		return "ok"
	case t[0] == "shas" && len(t) == 3:
		a, b := s.Contains(u64(t[2])), s.ContainsNoLock(u64(t[2]))
		if a != b {
			return "contains-disagree"
		}
		return h.B(a)
	case t[0] == "scard" && len(t) == 2:
		return strconv.FormatUint(s.Cardinality(), 10)
	case t[0] == "smerge" && len(t) == 3:
		var others []*tsdb.SeriesIDSet
		for _, o := range h.Split(t[2]) {
			i := reg(o)
			if r.ss[i] == s {
				return "bad-op" // s.Merge(s) self-deadlocks (RLock held across Lock); never generated
			}
			others = append(others, r.ss[i])
		}
		s.Merge(others...)
		return "ok"
	case t[0] == "smergeip" && len(t) == 3:
		s.MergeInPlace(r.ss[reg(t[2])])
		return "ok"
	case t[0] == "seq" && len(t) == 3:
		return h.B(s.Equals(r.ss[reg(t[2])]))
	case t[0] == "sand" && len(t) == 4:
		r.ss[reg(t[3])] = s.And(r.ss[reg(t[2])])
		return "ok"
	case t[0] == "sandnot" && len(t) == 4:
		r.ss[reg(t[3])] = s.AndNot(r.ss[reg(t[2])])
		return "ok"
	case t[0] == "sdiff" && len(t) == 3:
		o := r.ss[reg(t[2])]
		if o == s {
			return "bad-op" // s.Diff(s) self-deadlocks (RLock then Lock on the same mutex); never generated
		}
		s.Diff(o)
		return "ok"
	case t[0] == "sint" && len(t) == 3:
		return h.B(s.Intersects(r.ss[reg(t[2])]))
	case t[0] == "sclone" && len(t) == 3:
		r.ss[reg(t[2])] = s.Clone()
		return "ok"
	case (t[0] == "srt" || t[0] == "srtu") && len(t) == 3:
		var buf bytes.Buffer
		if _, err := s.WriteTo(&buf); err != nil {
			return "err-write"
		}
		d := tsdb.NewSeriesIDSet()
		var err error
		if t[0] == "srt" {
			err = d.UnmarshalBinary(buf.Bytes())
		} else {
			err = d.UnmarshalBinaryUnsafe(buf.Bytes())
		}
		if err != nil {
			return "err-read"
		}
		r.ss[reg(t[2])] = d
		return "ok"
	case t[0] == "sclear" && len(t) == 2:
		s.Clear()
		return "ok"
	case t[0] == "sslice" && len(t) == 2:
		return showU64s(s.Slice())
	case t[0] == "sforeach" && len(t) == 2:
		var a, b []uint64
		s.ForEach(func(id uint64) { a = append(a, id) })
		s.ForEachNoLock(func(id uint64) { b = append(b, id) })
		if showU64s(a) != showU64s(b) {
			return "foreach-disagree"
		}
		return showU64s(a)
	case t[0] == "siter" && len(t) == 2:
		var a []uint64
		it := s.Iterator()
		for it.HasNext() {
			a = append(a, uint64(it.Next()))
		}
		return showU64s(a)
	}
	return "bad-op"
}

// ---------------------------------------------------------------- generators

func randBytes(r *h.Rand, alphabet []byte, minLen, maxLen int) []byte {
	n := int(r.Range(int64(minLen), int64(maxLen)))
	b := make([]byte, n)
	for i := range b {
		b[i] = alphabet[r.Intn(len(alphabet))]
	}
	return b
}

func genRHH(r *h.Rand, nops int, withEmpty bool) []string {
	caps := []int64{0, 1, 2, 3, 4, 5, 8, 16}
	lfs := []int64{90, 90, 75, 50, 100, 30}
	capacity, lf := h.Pick(r, caps), h.Pick(r, lfs)
	ops := []string{fmt.Sprintf("rnew %d %d", capacity, lf)}
	// key pool: random short keys; optionally a cluster of keys sharing the low hash bits
	alphabet := []byte("abcdefgh\x00\xff")
	var pool [][]byte
	seen := map[string]bool{}
	add := func(k []byte) {
		if !seen[string(k)] {
			seen[string(k)] = true
			pool = append(pool, k)
		}
	}
	npool := 4 + r.Intn(28)
	if r.Chance(0.5) {
		// colliding cluster: keys whose hash has the same low 3 bits
		want := int64(r.Intn(8))
		for tries := 0; len(pool) < npool/2 && tries < 2000; tries++ {
			k := randBytes(r, alphabet, 1, 4)
			if rhh.HashKey(k)&7 == want {
				add(k)
			}
		}
	}
	for tries := 0; len(pool) < npool && tries < 2000; tries++ {
		add(randBytes(r, alphabet, 1, 4))
	}
	if withEmpty {
		add([]byte{})
	}
	put := func(k []byte) string {
		return fmt.Sprintf("rput %s %d %d", h.Hex(k), rhh.HashKey(k), r.Range(-5, 1000))
	}
	for i := 0; i < nops; i++ {
		k := h.Pick(r, pool)
		x := r.Intn(100)
		switch {
		case x < 50:
			ops = append(ops, put(k))
		case x < 72:
			if r.Chance(0.15) { // a key that was never in the pool
				k = randBytes(r, []byte("xyz"), 1, 3)
			}
			ops = append(ops, fmt.Sprintf("rget %s %d", h.Hex(k), rhh.HashKey(k)))
		case x < 82:
			ops = append(ops, "rdump")
		case x < 87:
			ops = append(ops, "rlen")
		case x < 90:
			ops = append(ops, "rcap")
		case x < 94:
			ops = append(ops, "rkeys")
		case x < 96:
			ops = append(ops, fmt.Sprintf("rgrow %d", r.Range(0, 40)))
		case x < 97:
			ops = append(ops, "rreset")
		default:
			c := int64(1) << uint(r.Range(1, 12))
			ops = append(ops, fmt.Sprintf("rdist %d %d %d", rhh.HashKey(k), r.Range(0, c-1), c))
		}
	}
	ops = append(ops, "rdump", "rlen", "rkeys")
	for _, k := range pool {
		ops = append(ops, fmt.Sprintf("rget %s %d", h.Hex(k), rhh.HashKey(k)))
	}
	return ops
}

func genBloom(r *h.Rand, nops int) []string {
	ms := []uint64{0, 1, 8, 9, 16, 64, 100, 256, 1024}
	ks := []uint64{0, 1, 2, 3, 4, 7}
	var ops []string
	var bytesOf [nReg]int
	mk := func(i int) {
		m, k := h.Pick(r, ms), h.Pick(r, ks)
		ops = append(ops, fmt.Sprintf("bnew %d %d %d", i, m, k))
	}
	mk(0)
	if r.Chance(0.7) {
		if r.Chance(0.6) {
			ops = append(ops, "bclone 0 1")
		} else {
			mk(1)
		}
	}
	_ = bytesOf
	alphabet := []byte("ab\x00\x01\xff")
	var pool [][]byte
	for i := 0; i < 3+r.Intn(20); i++ {
		pool = append(pool, randBytes(r, alphabet, 0, 5))
	}
	for i := 0; i < nops; i++ {
		k := h.Pick(r, pool)
		h0, h1 := bloomHash(k)
		reg := r.Intn(2)
		x := r.Intn(100)
		switch {
		case x < 40:
			ops = append(ops, fmt.Sprintf("bins %d %s %d %d", reg, h.Hex(k), h0, h1))
		case x < 75:
			if r.Chance(0.3) {
				k = randBytes(r, []byte("xyz"), 1, 4)
				h0, h1 = bloomHash(k)
			}
			ops = append(ops, fmt.Sprintf("bhas %d %s %d %d", reg, h.Hex(k), h0, h1))
		case x < 82:
			ops = append(ops, fmt.Sprintf("bbytes %d", reg))
		case x < 86:
			ops = append(ops, fmt.Sprintf("bkl %d", reg))
		case x < 92:
			ops = append(ops, fmt.Sprintf("bmerge %d %d", reg, 1-reg))
		case x < 95:
			ops = append(ops, fmt.Sprintf("bclone %d %d", reg, 2+r.Intn(2)))
		case x < 97:
			// a filter over a caller-supplied buffer (power-of-two length or not)
			n := h.Pick(r, []int{0, 1, 2, 3, 4, 8, 12, 16})
			buf := make([]byte, n)
			for j := range buf {
				if r.Chance(0.3) {
					buf[j] = byte(r.Intn(256))
				}
			}
			ops = append(ops, fmt.Sprintf("bbuf %d %s %d", 2+r.Intn(2), h.Hex(buf), h.Pick(r, ks)))
		default:
			reg = 2 + r.Intn(2)
			ops = append(ops, fmt.Sprintf("bhas %d %s %d %d", reg, h.Hex(k), h0, h1))
		}
	}
	for i := 0; i < nReg; i++ {
		ops = append(ops, fmt.Sprintf("bbytes %d", i))
	}
	for _, k := range pool {
		h0, h1 := bloomHash(k)
		ops = append(ops, fmt.Sprintf("bhas 0 %s %d %d", h.Hex(k), h0, h1), fmt.Sprintf("bhas 1 %s %d %d", h.Hex(k), h0, h1))
	}
	return ops
}

func genRadix(r *h.Rand, nops int, wide bool) []string {
	ops := []string{"tnew"}
	alphabet := []byte("abc")
	if r.Chance(0.3) {
		alphabet = []byte("ab\x00\xff")
	}
	if wide { // more than 16 edges below one node: getEdge switches to binary search
		alphabet = nil
		for c := 0; c < 40; c++ {
			alphabet = append(alphabet, byte(3+c*6))
		}
	}
	maxLen := 5
	if wide {
		maxLen = 2
	}
	key := func() []byte { return randBytes(r, alphabet, 0, maxLen) }
	delP := 8
	if r.Chance(0.3) {
		delP = 0 // insert/get only
	}
	for i := 0; i < nops; i++ {
		x := r.Intn(100)
		switch {
		case x < 45:
			ops = append(ops, fmt.Sprintf("tins %s %d", h.Hex(key()), r.Range(-3, 500)))
		case x < 63:
			ops = append(ops, "tget "+h.Hex(key()))
		case x < 63+delP:
			ops = append(ops, "tdel "+h.Hex(randBytes(r, alphabet, 0, 3)))
		case x < 75:
			ops = append(ops, "tmin")
		case x < 79:
			ops = append(ops, "tmax")
		case x < 84:
			ops = append(ops, "tlen")
		case x < 92:
			ops = append(ops, "twalk")
		default:
			ops = append(ops, "tdump")
		}
	}
	ops = append(ops, "twalk", "tlen", "tdump", "tmin", "tmax")
	return ops
}

func genSet(r *h.Rand, nops int, big bool) []string {
	small := []uint64{0, 1, 2, 3, 4, 5, 6, 7, 8, 9, 10, 15, 16, 17, 31, 32, 33, 100, 4095, 4096, 4097, 65535, 65536, 65537, 131072, 1 << 31, 1<<32 - 2, 1<<32 - 1}
	bigs := []uint64{1 << 32, 1<<32 + 5, 1<<32 + 65536, 1 << 40, 1 << 63, 1<<64 - 1, 1<<33 + 7}
	id := func() uint64 {
		if big && r.Chance(0.2) {
			return h.Pick(r, bigs)
		}
		if r.Chance(0.6) {
			return uint64(r.Intn(24))
		}
		return h.Pick(r, small)
	}
	ids := func() string {
		n := r.Intn(7)
		xs := make([]uint64, n)
		for i := range xs {
			xs[i] = id()
		}
		return showU64s(xs)
	}
	var ops []string
	rg := func() int { return r.Intn(nReg) }
	other := func(a int) int { return (a + 1 + r.Intn(nReg-1)) % nReg }
	for i := 0; i < nops; i++ {
		a := rg()
		x := r.Intn(100)
		switch {
		case x < 4:
			ops = append(ops, fmt.Sprintf("snew %d %s", a, ids()))
		case x < 22:
			ops = append(ops, fmt.Sprintf("%s %d %d", h.Pick(r, []string{"sadd", "sadd", "saddnl"}), a, id()))
		case x < 28:
			ops = append(ops, fmt.Sprintf("saddmany %d %s", a, ids()))
		case x < 36:
			ops = append(ops, fmt.Sprintf("%s %d %d", h.Pick(r, []string{"srem", "sremnl"}), a, id()))
		case x < 46:
			ops = append(ops, fmt.Sprintf("shas %d %d", a, id()))
		case x < 50:
			ops = append(ops, fmt.Sprintf("scard %d", a))
		case x < 55:
			n := r.Intn(3)
			var os []string
			b := a
			for j := 0; j < n; j++ {
				b = other(a)
				os = append(os, strconv.Itoa(b))
			}
			ops = append(ops, fmt.Sprintf("smerge %d %s", a, h.Join(os)))
		case x < 59:
			ops = append(ops, fmt.Sprintf("smergeip %d %d", a, rg()))
		case x < 63:
			ops = append(ops, fmt.Sprintf("seq %d %d", a, rg()))
		case x < 68:
			ops = append(ops, fmt.Sprintf("sand %d %d %d", a, rg(), rg()))
		case x < 73:
			ops = append(ops, fmt.Sprintf("sandnot %d %d %d", a, rg(), rg()))
		case x < 77:
			ops = append(ops, fmt.Sprintf("sdiff %d %d", a, other(a)))
		case x < 80:
			ops = append(ops, fmt.Sprintf("sint %d %d", a, rg()))
		case x < 83:
			ops = append(ops, fmt.Sprintf("sclone %d %d", a, rg()))
		case x < 87:
			ops = append(ops, fmt.Sprintf("%s %d %d", h.Pick(r, []string{"srt", "srtu"}), a, rg()))
		case x < 88:
			ops = append(ops, fmt.Sprintf("sclear %d", a))
		case x < 94:
			ops = append(ops, fmt.Sprintf("sslice %d", a))
		case x < 97:
			ops = append(ops, fmt.Sprintf("sforeach %d", a))
		default:
			ops = append(ops, fmt.Sprintf("siter %d", a))
		}
	}
	for i := 0; i < nReg; i++ {
		ops = append(ops, fmt.Sprintf("sslice %d", i), fmt.Sprintf("scard %d", i))
	}
	return ops
}

func gen(r *h.Rand, tier string, emit func([]string)) {
	n := 150
	if tier == "thorough" {
		n = 1500
	}
	for i := 0; i < n; i++ {
		emit(genRHH(r, 30+r.Intn(60), false))
		emit(genBloom(r, 30+r.Intn(40)))
		emit(genRadix(r, 30+r.Intn(60), i%10 == 9))
		emit(genSet(r, 30+r.Intn(50), false))
		if i%10 == 3 {
			emit(genRHH(r, 30+r.Intn(40), true)) // empty key in the pool
		}
		if i%10 == 7 {
			emit(genSet(r, 30+r.Intn(30), true)) // ids above 2^32
		}
	}
	// malformed stream
	emit([]string{"rlen", "rnew 4", "rnew 4 90", "rput zz", "rput zz 1 1", "xyz", "bins 0 61 1 1", "bnew 0 8", "bnew 7 8 1", "tins 61 1", "tnew", "tins 61", "tins 6 1", "sadd 9 1", "sadd 0", "sadd 0 x", "rdump", "sslice 0"})
}

var _ = sort.Strings

func main() { h.Main(h.Harness{Gen: gen, NewCase: newCase}) }
