package main

import (
	"math"
	"sort"
	"strconv"
	"strings"

	"verif/harness/h"
)

type gcase struct {
	r    *h.Rand
	ops  []string
	next int64 // value counter: every written point gets its own value
}

func (g *gcase) val(key string) int64 {
	if key[0] == 'b' {
		return int64(g.r.Intn(2))
	}
	g.next++
	return g.next
}

func ptsTok(pts []int64) string { return h.Ints(pts) }

func (g *gcase) blk(file int, key string, times []int64) {
	pts := make([]int64, 0, 2*len(times))
	for _, t := range times {
		pts = append(pts, t, g.val(key))
	}
	g.ops = append(g.ops, "blk "+strconv.Itoa(file)+" "+h.HexS(key)+" "+ptsTok(pts))
}

func (g *gcase) del(file int, keys []string, lo, hi int64) {
	sort.Strings(keys)
	var hk []string
	for i, k := range keys {
		if i > 0 && keys[i-1] == k {
			continue
		}
		hk = append(hk, h.HexS(k))
	}
	g.ops = append(g.ops, "del "+strconv.Itoa(file)+" "+h.Join(hk)+" "+strconv.FormatInt(lo, 10)+" "+strconv.FormatInt(hi, 10))
}

func (g *gcase) compact(fast bool, size int, reopen bool) {
	m := "full"
	if fast {
		m = "fast"
	}
	g.ops = append(g.ops, "compact "+m+" "+strconv.Itoa(size)+" "+h.B(reopen))
}

var keyPool = []string{"f1", "i1", "u1", "b1", "s1", "i2", "i", "f2x", "s", "zz", "i1\x00", "i\xff"}

// splitBlocks cuts ascending times into blocks of 1..maxLen points.
func splitBlocks(r *h.Rand, times []int64, maxLen int) [][]int64 {
	var out [][]int64
	for len(times) > 0 {
		n := 1 + r.Intn(maxLen)
		if r.Chance(0.15) {
			n = 1
		}
		if n > len(times) {
			n = len(times)
		}
		out = append(out, times[:n])
		times = times[n:]
	}
	return out
}

func pickSizes(r *h.Rand) int {
	return h.Pick(r, []int{1, 2, 2, 3, 3, 3, 4, 4, 5, 7, 1000})
}

// general: a few files over a small time domain, overlapping and duplicate timestamps everywhere.
func genGeneral(r *h.Rand, big bool) []string {
	g := &gcase{r: r}
	nfiles := 1 + r.Intn(4)
	if r.Chance(0.15) {
		nfiles = 5 + r.Intn(4)
	}
	nkeys := 1 + r.Intn(3)
	keys := make([]string, 0, nkeys)
	for len(keys) < nkeys {
		k := h.Pick(r, keyPool)
		dup := false
		for _, e := range keys {
			dup = dup || e == k
		}
		if !dup {
			keys = append(keys, k)
		}
	}
	dom := int64(h.Pick(r, []int{6, 8, 12, 20, 40}))
	if big {
		dom = int64(h.Pick(r, []int{40, 80, 200}))
	}
	base := int64(0)
	step := int64(1)
	switch r.Intn(8) {
	case 0:
		base = -dom / 2
	case 1:
		base = math.MaxInt64 - 1 - dom*3
		step = 3
	case 2:
		base = math.MinInt64 + 2
	case 3:
		base = 1700000000000000000
		step = 1000000000
	}
	maxLen := 1 + r.Intn(5)
	fileIDs := make([]int, nfiles)
	for i := range fileIDs {
		fileIDs[i] = i
		if r.Chance(0.1) {
			fileIDs[i] = i + r.Intn(3)*(i+1)
		}
	}
	sort.Ints(fileIDs)
	type fk struct {
		f int
		k string
	}
	var lines [][]string // per (file,key): its blk lines in order
	for _, f := range fileIDs {
		dens := 0.2 + 0.7*float64(r.Intn(100))/100
		// a file often covers only a window of the domain
		lo, hi := int64(0), dom
		if r.Chance(0.5) {
			lo = r.Range(0, dom-1)
			hi = r.Range(lo+1, dom)
		}
		for _, k := range keys {
			if !r.Chance(0.75) {
				continue
			}
			var times []int64
			for t := lo; t < hi; t++ {
				if r.Chance(dens) {
					times = append(times, base+t*step)
				}
			}
			if len(times) == 0 {
				continue
			}
			sub := &gcase{r: r, next: g.next}
			for _, b := range splitBlocks(r, times, maxLen) {
				sub.blk(f, k, b)
			}
			g.next = sub.next
			lines = append(lines, sub.ops)
		}
	}
	// interleave the per-(file,key) streams
	for len(lines) > 0 {
		i := r.Intn(len(lines))
		if r.Chance(0.7) {
			i = 0
		}
		g.ops = append(g.ops, lines[i][0])
		lines[i] = lines[i][1:]
		if len(lines[i]) == 0 {
			lines = append(lines[:i], lines[i+1:]...)
		}
	}
	// deletes
	ndel := 0
	if r.Chance(0.6) {
		ndel = 1 + r.Intn(3)
	}
	for i := 0; i < ndel; i++ {
		f := h.Pick(r, fileIDs)
		if r.Chance(0.05) {
			f = 40 + r.Intn(5)
		}
		var ks []string
		for _, k := range keys {
			if r.Chance(0.6) {
				ks = append(ks, k)
			}
		}
		if r.Chance(0.1) {
			ks = append(ks, h.Pick(r, keyPool))
		}
		if len(ks) == 0 {
			ks = append(ks, h.Pick(r, keys))
		}
		a := r.Range(-2, dom+1)
		b := r.Range(a, dom+2)
		if r.Chance(0.3) {
			b = a + r.Range(0, 2)
		}
		lo, hi := base+a*step, base+b*step
		switch r.Intn(12) {
		case 0:
			lo, hi = math.MinInt64, math.MaxInt64
		case 1:
			lo = math.MinInt64
		case 2:
			hi = math.MaxInt64
		case 3:
			lo, hi = hi+1, lo-1 // empty range
		}
		if base > math.MaxInt64/2 && hi < lo && r.Intn(12) != 3 {
			hi = math.MaxInt64
		}
		g.del(f, ks, lo, hi)
		// a second, adjacent or overlapping delete on the same file (tombstone chain)
		if r.Chance(0.3) && hi < math.MaxInt64-10*step && lo <= hi {
			lo2 := hi + 1
			if r.Chance(0.5) {
				lo2 = hi - step
			}
			g.del(f, ks, lo2, lo2+r.Range(0, 3)*step)
		}
	}
	n := 1 + r.Intn(2)
	for i := 0; i < n; i++ {
		g.compact(r.Chance(0.45), pickSizes(r), r.Bool())
	}
	return g.ops
}

// manyBlocks: one key with more than 20 blocks (sort.Stable leaves its insertion-sort
// regime) built from staircases of overlapping blocks in many files.
func genManyBlocks(r *h.Rand) []string {
	g := &gcase{r: r}
	key := h.Pick(r, []string{"i1", "f1", "s1", "u1"})
	nsmall := 8 + r.Intn(14)
	t := int64(1)
	var small [][]int64
	for i := 0; i < nsmall; i++ {
		n := 1 + r.Intn(2)
		var b []int64
		for j := 0; j < n; j++ {
			b = append(b, t)
			t += 1 + int64(r.Intn(2))
		}
		small = append(small, b)
	}
	top := t + 60 + int64(r.Intn(40))
	for _, b := range small {
		g.blk(0, key, b)
	}
	// one late block in file 0, then a descending staircase, one block per file
	g.blk(0, key, []int64{top, top + 5, top + 10})
	nst := 3 + r.Intn(7)
	hiT := top + 5
	f := 1
	for i := 0; i < nst; i++ {
		w := 6 + int64(r.Intn(10))
		lo := hiT - w - int64(r.Intn(6))
		if lo <= t {
			break
		}
		var b []int64
		for x := lo; x <= lo+w; x += 1 + int64(r.Intn(4)) {
			b = append(b, x)
		}
		g.blk(f, key, b)
		hiT = lo + w/2
		f++
	}
	// a newest file with short blocks inside the staircase
	nlast := 1 + r.Intn(3)
	x := hiT - int64(r.Intn(8))
	if x <= t {
		x = t + 1
	}
	for i := 0; i < nlast; i++ {
		var b []int64
		n := 1 + r.Intn(3)
		for j := 0; j < n; j++ {
			b = append(b, x)
			x += 1 + int64(r.Intn(3))
		}
		g.blk(f, key, b)
		x += int64(r.Intn(5))
	}
	// some extra random blocks in further files to vary the total count
	extra := r.Intn(4)
	for e := 0; e < extra; e++ {
		f++
		lo := r.Range(1, top)
		g.blk(f, key, []int64{lo, lo + 1 + int64(r.Intn(5))})
	}
	if r.Chance(0.3) {
		g.del(r.Intn(f+1), []string{key}, r.Range(1, top), r.Range(1, top+10))
	}
	g.compact(r.Chance(0.3), pickSizes(r), r.Bool())
	return g.ops
}

func genSnap(r *h.Rand, tier string) []string {
	g := &gcase{r: r}
	nkeys := 1 + r.Intn(3)
	dom := int64(h.Pick(r, []int{4, 8, 16}))
	nw := 1 + r.Intn(5)
	for i := 0; i < nw; i++ {
		k := keyPool[r.Intn(nkeys+2)]
		n := 1 + r.Intn(6)
		pts := make([]int64, 0, 2*n)
		sorted := r.Chance(0.4)
		var ts []int64
		for j := 0; j < n; j++ {
			ts = append(ts, r.Range(-1, dom))
		}
		if sorted {
			sort.Slice(ts, func(a, b int) bool { return ts[a] < ts[b] })
		}
		for _, t := range ts {
			pts = append(pts, t, g.val(k))
		}
		g.ops = append(g.ops, "cw "+h.HexS(k)+" "+ptsTok(pts))
	}
	if r.Chance(0.08) {
		// more than tsdb.DefaultMaxPointsPerBlock values of one key
		n := 1001 + r.Intn(1500)
		pts := make([]int64, 0, 2*n)
		for j := 0; j < n; j++ {
			pts = append(pts, int64(j*2), g.val("i9"))
		}
		g.ops = append(g.ops, "cw "+h.HexS("i9")+" "+ptsTok(pts))
	}
	g.ops = append(g.ops, "snap "+strconv.Itoa(h.Pick(r, []int{0, 0, 1, 2, 3, 4, 5})))
	if r.Chance(0.3) {
		g.ops = append(g.ops, "snap "+strconv.Itoa(h.Pick(r, []int{0, 1, 2, 3})))
	}
	return g.ops
}

func genMalformed(r *h.Rand) []string {
	var ops []string
	junk := []string{
		"blk", "blk 0", "blk 0 6931 1", "blk 0 6931 1,2,3", "blk x 6931 1,2", "blk 0 zz 1,2", "blk 0 - 1,2",
		"blk 0 6931 2,1,1,2", "blk 0 6931 1,1,1,2", "blk 64 6931 1,1", "blk 0 6231 1,2", "blk 0 6931 -", "blk -1 6931 1,1",
		"blk 0 6931 9223372036854775807,1", "blk 0 6931 -9223372036854775808,1", "blk 0 6931 1,9223372036854775807",
		"del 0 6931 1", "del 0 6932,6931 1 2", "del 0 6931,6931 1 2", "del x 6931 1 2", "del 0 6931 a 2", "del 64 6931 1 2",
		"cw 6931", "cw 6931 1", "cw - 1,2", "cw 6231 1,5",
		"compact", "compact full", "compact slow 3 0", "compact full 0 0", "compact full 3 2", "compact full -3 0", "compact full 100001 0",
		"snap", "snap x", "snap 100001", "snap -1", "frob 1 2 3", "blk 0 6931 1,2 extra",
	}
	ops = append(ops, "blk 0 6931 5,1,6,2", "blk 1 6931 6,3")
	n := 6 + r.Intn(10)
	for i := 0; i < n; i++ {
		ops = append(ops, h.Pick(r, junk))
	}
	// a block that starts before the previous block of the same file/key ended
	ops = append(ops, "blk 0 6931 6,9", "blk 0 6931 7,9", "compact "+h.Pick(r, []string{"full", "fast"})+" 2 0")
	return ops
}

func gen(r *h.Rand, tier string, emit func([]string)) {
	n := 1200
	if tier == "thorough" {
		n = 8000
	}
	// fixed regression shapes first
	for _, c := range fixedCases() {
		emit(c)
	}
	for i := 0; i < n; i++ {
		switch x := r.Intn(100); {
		case x < 62:
			emit(genGeneral(r, false))
		case x < 70:
			emit(genGeneral(r, true))
		case x < 82:
			emit(genManyBlocks(r))
		case x < 95:
			emit(genSnap(r, tier))
		default:
			emit(genMalformed(r))
		}
	}
}

// fixedCases: hand-written shapes (kept small; they also document the protocol).
func fixedCases() [][]string {
	i1 := h.HexS("i1")
	return [][]string{
		{ // two files, duplicate timestamp 2: the later file wins
			"blk 0 " + i1 + " 1,10,2,11", "blk 1 " + i1 + " 2,20,3,21", "compact full 2 0",
		},
		{ // a partial delete in file 0
			"blk 0 " + i1 + " 1,10,2,11,3,12", "blk 1 " + i1 + " 5,20", "del 0 " + i1 + " 2 2", "compact full 3 1", "compact fast 3 0",
		},
		strings.Split("cw "+i1+" 3,1,1,2,3,3|snap 2|snap 0", "|"),
	}
}
