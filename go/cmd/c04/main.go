// Harness for C04: builds real TSM files with NewTSMWriter, applies range deletes
// with TSMReader.DeleteRange, runs the real Compactor.CompactFull / CompactFast /
// WriteSnapshot and reads the output files back block by block with TSMReader.
//
// Ops (see lean/Influx/Drv/C04.lean):
//
//	blk <file> <keyhex> <t,v,t,v,…>        one block of one key of input file <file>
//	del <file> <keyhex,…> <lo> <hi>        TSMReader.DeleteRange on input file <file>
//	cw  <keyhex> <t,v,…>                   Cache.WriteMulti
//	compact <full|fast> <size> <reopen>    CompactFull/CompactFast(all files, size)
//	snap <size>                            WriteSnapshot (size 0) or the same loop over
//	                                       NewCacheKeyIterator(cache, size) (hook)
//
// The first byte of a key selects the value type: f,i,u,b,s (else integer).
package main

import (
	"bytes"
	"fmt"
	"math"
	"os"
	"path/filepath"
	"sort"
	"strconv"
	"strings"
	"sync/atomic"
	"time"

	"github.com/influxdata/influxdb/v2/tsdb"
	"github.com/influxdata/influxdb/v2/tsdb/engine/tsm1"
	"go.uber.org/zap"
	"verif/harness/h"
)

type blk struct {
	file int
	key  string
	pts  []int64 // t,v,t,v
}

type del struct {
	file   int
	keys   []string
	lo, hi int64
}

type cw struct {
	key string
	pts []int64
}

type runner struct {
	dir   string
	n     int
	blks  []blk
	dels  []del
	cws   []cw
	lastT map[string]int64 // file/key -> last timestamp
}

func newCase() h.CaseRunner {
	// tmpfs when there is one: the case writes and fsyncs a dozen small files
	base := ""
	if st, err := os.Stat("/dev/shm"); err == nil && st.IsDir() && os.Getenv("VERIF_C04_DISK") == "" {
		base = "/dev/shm"
	}
	d, err := os.MkdirTemp(base, "verif-c04-")
	if err != nil {
		d, err = os.MkdirTemp("", "verif-c04-")
	}
	if err != nil {
		panic(err)
	}
	return &runner{dir: d, lastT: map[string]int64{}}
}

func (r *runner) Close() { os.RemoveAll(r.dir) }

const (
	minTime = math.MinInt64 + 2
	maxTime = math.MaxInt64 - 1
)

func keyOK(k []byte) bool { return len(k) > 0 && len(k) <= 64 }

func valueOK(k []byte, v int64) bool {
	switch k[0] {
	case 'b':
		return v == 0 || v == 1
	case 'u':
		return v >= 0 && v <= 1<<62
	case 'f':
		return v >= -(1<<53) && v <= 1<<53
	default:
		return v >= -(1<<62) && v <= 1<<62
	}
}

func mkValue(k []byte, t, v int64) tsm1.Value {
	switch k[0] {
	case 'b':
		return tsm1.NewBooleanValue(t, v == 1)
	case 'u':
		return tsm1.NewUnsignedValue(t, uint64(v))
	case 'f':
		return tsm1.NewFloatValue(t, float64(v))
	case 's':
		return tsm1.NewStringValue(t, strconv.FormatInt(v, 10))
	default:
		return tsm1.NewIntegerValue(t, v)
	}
}

func unValue(v tsm1.Value) (int64, bool) {
	switch x := v.Value().(type) {
	case bool:
		if x {
			return 1, true
		}
		return 0, true
	case uint64:
		return int64(x), true
	case float64:
		return int64(x), float64(int64(x)) == x
	case string:
		n, err := strconv.ParseInt(x, 10, 64)
		return n, err == nil
	case int64:
		return x, true
	}
	return 0, false
}

func parsePts(s string) ([]int64, bool) {
	if s == "-" {
		return nil, true
	}
	var out []int64
	for _, p := range strings.Split(s, ",") {
		v, err := strconv.ParseInt(p, 10, 64)
		if err != nil {
			return nil, false
		}
		out = append(out, v)
	}
	return out, len(out)%2 == 0
}

func ptsOK(k []byte, pts []int64, ascending bool) bool {
	if len(pts) == 0 {
		return false
	}
	for i := 0; i < len(pts); i += 2 {
		if pts[i] < minTime || pts[i] > maxTime || !valueOK(k, pts[i+1]) {
			return false
		}
		if ascending && i > 0 && pts[i-2] >= pts[i] {
			return false
		}
	}
	return true
}

func parseNat(s string) (int, bool) {
	if s == "" || s[0] == '+' || s[0] == '-' {
		return 0, false
	}
	v, err := strconv.ParseUint(s, 10, 31)
	return int(v), err == nil
}

func parseKeyTok(s string) ([]byte, bool) {
	if s == "-" {
		return nil, false
	}
	k, err := h.UnHex(s)
	return k, err == nil
}

func (r *runner) Op(t []string) string {
	if len(t) == 0 {
		return "bad-op"
	}
	switch t[0] {
	case "blk":
		if len(t) != 4 {
			return "bad-op"
		}
		f, ok1 := parseNat(t[1])
		k, ok2 := parseKeyTok(t[2])
		pts, ok3 := parsePts(t[3])
		if !ok1 || !ok2 || !ok3 || f >= 64 || !keyOK(k) || !ptsOK(k, pts, true) {
			return "bad-op"
		}
		id := strconv.Itoa(f) + "/" + string(k)
		if last, ok := r.lastT[id]; ok && last >= pts[0] {
			return "bad-op"
		}
		r.lastT[id] = pts[len(pts)-2]
		r.blks = append(r.blks, blk{f, string(k), pts})
		return "ok"
	case "del":
		if len(t) != 5 {
			return "bad-op"
		}
		f, ok1 := parseNat(t[1])
		lo, err1 := strconv.ParseInt(t[3], 10, 64)
		hi, err2 := strconv.ParseInt(t[4], 10, 64)
		if !ok1 || f >= 64 || err1 != nil || err2 != nil {
			return "bad-op"
		}
		var keys []string
		if t[2] != "-" {
			for _, ks := range strings.Split(t[2], ",") {
				k, ok := parseKeyTok(ks)
				if !ok || !keyOK(k) {
					return "bad-op"
				}
				if len(keys) > 0 && keys[len(keys)-1] >= string(k) {
					return "bad-op"
				}
				keys = append(keys, string(k))
			}
		}
		r.dels = append(r.dels, del{f, keys, lo, hi})
		return "ok"
	case "cw":
		if len(t) != 3 {
			return "bad-op"
		}
		k, ok2 := parseKeyTok(t[1])
		pts, ok3 := parsePts(t[2])
		if !ok2 || !ok3 || !keyOK(k) || !ptsOK(k, pts, false) {
			return "bad-op"
		}
		r.cws = append(r.cws, cw{string(k), pts})
		return "ok"
	case "compact":
		if len(t) != 4 || (t[1] != "full" && t[1] != "fast") || (t[3] != "0" && t[3] != "1") {
			return "bad-op"
		}
		size, ok := parseNat(t[2])
		if !ok || size == 0 || size > 100000 {
			return "bad-op"
		}
		return guarded(func() string { return r.compact(t[1] == "fast", size, t[3] == "1") })
	case "snap":
		if len(t) != 2 {
			return "bad-op"
		}
		size, ok := parseNat(t[1])
		if !ok || size > 100000 {
			return "bad-op"
		}
		return guarded(func() string { return r.snap(size) })
	}
	return "bad-op"
}

// wedged counts compactions of this process that did not return.  A compaction
// that loops forever keeps its goroutine spinning, so after two of them the
// process answers "err:timeout" at once instead of piling up more.
var wedged int32

func guarded(f func() string) string {
	if atomic.LoadInt32(&wedged) >= 2 {
		return "err:timeout"
	}
	done := make(chan string, 1)
	go func() {
		defer func() {
			if p := recover(); p != nil {
				msg := strings.Map(func(r rune) rune {
					if r == '\t' || r == '\n' || r == ' ' {
						return '_'
					}
					return r
				}, fmt.Sprint(p))
				if len(msg) > 80 {
					msg = msg[:80]
				}
				done <- "panic:" + msg
			}
		}()
		done <- f()
	}()
	select {
	case a := <-done:
		return a
	case <-time.After(25 * time.Second):
		atomic.AddInt32(&wedged, 1)
		return "err:timeout"
	}
}

// fileStore is what Compactor needs from a FileStore.
type fileStore struct {
	readers map[string]*tsm1.TSMReader // pre-opened readers (reopen = false)
	opened  []*tsm1.TSMReader
	gen     int
}

func (w *fileStore) Stats() []tsm1.ExtFileStat { return nil }
func (w *fileStore) NextGeneration() int       { w.gen++; return w.gen }
func (w *fileStore) LastModified() time.Time   { return time.Time{} }
func (w *fileStore) TSMReader(path string) (*tsm1.TSMReader, error) {
	if r, ok := w.readers[path]; ok {
		r.Ref()
		return r, nil
	}
	f, err := os.Open(path)
	if err != nil {
		return nil, err
	}
	r, err := tsm1.NewTSMReader(f, tsm1.WithParseFileNameFunc(tsm1.DefaultParseFileName))
	if err != nil {
		return nil, err
	}
	w.opened = append(w.opened, r)
	r.Ref()
	return r, nil
}
func (w *fileStore) ParseFileName(path string) (int, int, error) {
	return tsm1.DefaultParseFileName(path)
}
func (w *fileStore) SupportsCompactionPlanning() bool { return true }

func openReader(path string) (*tsm1.TSMReader, error) {
	f, err := os.Open(path)
	if err != nil {
		return nil, err
	}
	return tsm1.NewTSMReader(f, tsm1.WithParseFileNameFunc(tsm1.DefaultParseFileName))
}

func errStr(what string, err error) string {
	msg := strings.Map(func(r rune) rune {
		if r == '\t' || r == '\n' || r == ' ' {
			return '_'
		}
		return r
	}, err.Error())
	if len(msg) > 60 {
		msg = msg[:60]
	}
	return "err:" + what + ":" + msg
}

func (r *runner) compact(fast bool, size int, reopen bool) string {
	r.n++
	dir := filepath.Join(r.dir, fmt.Sprintf("c%d", r.n))
	if err := os.MkdirAll(dir, 0o777); err != nil {
		return errStr("mkdir", err)
	}
	defer os.RemoveAll(dir)

	// ---- write the input files
	byFile := map[int]map[string][][]int64{}
	for _, b := range r.blks {
		if byFile[b.file] == nil {
			byFile[b.file] = map[string][][]int64{}
		}
		byFile[b.file][b.key] = append(byFile[b.file][b.key], b.pts)
	}
	var ids []int
	for f := range byFile {
		ids = append(ids, f)
	}
	sort.Ints(ids)
	paths := map[int]string{}
	var tsmFiles []string
	for _, f := range ids {
		path := filepath.Join(dir, tsm1.DefaultFormatFileName(f+1, 1)+"."+tsm1.TSMFileExtension)
		fd, err := os.OpenFile(path, os.O_CREATE|os.O_RDWR|os.O_EXCL, 0o666)
		if err != nil {
			return errStr("create", err)
		}
		w, err := tsm1.NewTSMWriter(fd)
		if err != nil {
			return errStr("writer", err)
		}
		var keys []string
		for k := range byFile[f] {
			keys = append(keys, k)
		}
		sort.Strings(keys)
		for _, k := range keys {
			for _, pts := range byFile[f][k] {
				vals := make([]tsm1.Value, 0, len(pts)/2)
				for i := 0; i < len(pts); i += 2 {
					vals = append(vals, mkValue([]byte(k), pts[i], pts[i+1]))
				}
				if err := w.Write([]byte(k), vals); err != nil {
					return errStr("write", err)
				}
			}
		}
		if err := w.WriteIndex(); err != nil {
			return errStr("index", err)
		}
		if err := w.Close(); err != nil {
			return errStr("close", err)
		}
		paths[f] = path
		tsmFiles = append(tsmFiles, path)
	}

	// ---- deletes, through real readers
	fs := &fileStore{readers: map[string]*tsm1.TSMReader{}}
	pre := map[int]*tsm1.TSMReader{}
	defer func() {
		for _, rd := range pre {
			rd.Close()
		}
		for _, rd := range fs.opened {
			rd.Close()
		}
	}()
	for _, f := range ids {
		rd, err := openReader(paths[f])
		if err != nil {
			return errStr("open", err)
		}
		pre[f] = rd
		if !reopen {
			fs.readers[paths[f]] = rd
		}
	}
	for _, d := range r.dels {
		rd, ok := pre[d.file]
		if !ok {
			continue
		}
		keys := make([][]byte, len(d.keys))
		for i, k := range d.keys {
			keys[i] = []byte(k)
		}
		if err := rd.DeleteRange(keys, d.lo, d.hi); err != nil {
			return errStr("delete", err)
		}
	}

	// ---- the compaction
	c := tsm1.NewCompactor()
	c.Dir = dir
	c.FileStore = fs
	c.Open()
	defer c.Close()
	var out []string
	var err error
	if len(tsmFiles) == 0 {
		return "out -"
	}
	if fast {
		out, err = c.CompactFast(tsmFiles, zap.NewNop(), size)
	} else {
		out, err = c.CompactFull(tsmFiles, zap.NewNop(), size)
	}
	if err != nil {
		return errStr("compact", err)
	}
	return readOutputs(out)
}

func (r *runner) snap(size int) string {
	r.n++
	dir := filepath.Join(r.dir, fmt.Sprintf("s%d", r.n))
	if err := os.MkdirAll(dir, 0o777); err != nil {
		return errStr("mkdir", err)
	}
	defer os.RemoveAll(dir)
	cache := tsm1.NewCache(0, tsdb.EngineTags{})
	for _, w := range r.cws {
		vals := make([]tsm1.Value, 0, len(w.pts)/2)
		for i := 0; i < len(w.pts); i += 2 {
			vals = append(vals, mkValue([]byte(w.key), w.pts[i], w.pts[i+1]))
		}
		if err := cache.WriteMulti(map[string][]tsm1.Value{w.key: vals}); err != nil {
			return errStr("cache-write", err)
		}
	}
	// Engine.WriteSnapshot: snapshot, deduplicate, then Compactor.WriteSnapshot
	snapshot, err := cache.Snapshot()
	if err != nil {
		return errStr("snapshot", err)
	}
	snapshot.Deduplicate()
	fs := &fileStore{readers: map[string]*tsm1.TSMReader{}}
	c := tsm1.NewCompactor()
	c.Dir = dir
	c.FileStore = fs
	c.Open()
	defer c.Close()
	var out []string
	if size == 0 {
		out, err = c.WriteSnapshot(snapshot, zap.NewNop())
	} else {
		iter := tsm1.NewCacheKeyIterator(snapshot, size, c.VerifSnapshotsInterrupt())
		out, err = c.VerifWriteNewFiles(fs.NextGeneration(), 0, iter)
	}
	if err != nil {
		return errStr("snapshot-write", err)
	}
	return readOutputs(out)
}

// readOutputs renders the written files block by block:
// files ';'-joined, blocks '/'-joined, block = keyhex:min:max:t,v,…
func readOutputs(paths []string) string {
	if len(paths) == 0 {
		return "out -"
	}
	var files []string
	for _, p := range paths {
		rd, err := openReader(p)
		if err != nil {
			return errStr("read-output", err)
		}
		var blocks []string
		n := rd.KeyCount()
		var prev []byte
		for i := 0; i < n; i++ {
			key, _ := rd.KeyAt(i)
			key = append([]byte(nil), key...)
			if i > 0 && bytes.Compare(prev, key) >= 0 {
				// the reader's index is binary-searched: report what is there, in index order
			}
			prev = key
			for _, e := range rd.Entries(key) {
				e := e
				vals, err := rd.ReadAt(&e, nil)
				if err != nil {
					rd.Close()
					return errStr("read-block", err)
				}
				pts := make([]int64, 0, 2*len(vals))
				for _, v := range vals {
					x, ok := unValue(v)
					if !ok {
						rd.Close()
						return "err:value-not-representable"
					}
					pts = append(pts, v.UnixNano(), x)
				}
				blocks = append(blocks, h.Hex(key)+":"+strconv.FormatInt(e.MinTime, 10)+":"+strconv.FormatInt(e.MaxTime, 10)+":"+h.Ints(pts))
			}
		}
		rd.Close()
		if len(blocks) == 0 {
			files = append(files, "~")
		} else {
			files = append(files, strings.Join(blocks, "/"))
		}
	}
	return "out " + strings.Join(files, ";")
}

// sweepStale removes case directories a killed harness process left on the tmpfs.
func sweepStale() {
	dirs, _ := filepath.Glob("/dev/shm/verif-c04-*")
	for _, d := range dirs {
		if st, err := os.Stat(d); err == nil && time.Since(st.ModTime()) > 45*time.Minute {
			os.RemoveAll(d)
		}
	}
}

func main() {
	sweepStale()
	h.Main(h.Harness{Gen: gen, NewCase: newCase, OpTimeout: 60 * time.Second})
}
