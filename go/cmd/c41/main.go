// Harness for C41: drives the real storage/flux reader (storageflux.NewReader(...)
// .ReadWindowAggregate with a hand-built query.ReadWindowAggregateSpec — no Flux source is
// parsed: libflux is a link stub) over a reads.Store whose WindowAggregate is the real
// reads.NewWindowAggregateResultSet on mock shards (package rmock).
package main

import (
	"context"
	"errors"
	"fmt"
	"strconv"
	"strings"

	"github.com/influxdata/flux"
	"github.com/influxdata/flux/execute"
	"github.com/influxdata/flux/memory"
	"github.com/influxdata/flux/plan"
	"github.com/influxdata/flux/values"
	"github.com/influxdata/influxdb/v2/models"
	"github.com/influxdata/influxdb/v2/query"
	storageflux "github.com/influxdata/influxdb/v2/storage/flux"
	"github.com/influxdata/influxdb/v2/storage/reads"
	"github.com/influxdata/influxdb/v2/storage/reads/datatypes"
	"github.com/influxdata/influxdb/v2/tsdb/cursors"
	"google.golang.org/protobuf/proto"
	"google.golang.org/protobuf/types/known/emptypb"
	"verif/harness/cmd/c20/rmock"
	"verif/harness/h"
)

// store: reads.Store over one series held by mock shards
type store struct {
	tags   models.Tags
	shards []rmock.Shard
}

var errNotUsed = errors.New("not used by this harness")

func (s *store) ReadFilter(ctx context.Context, req *datatypes.ReadFilterRequest) (reads.ResultSet, error) {
	return nil, errNotUsed
}
func (s *store) ReadGroup(ctx context.Context, req *datatypes.ReadGroupRequest) (reads.GroupResultSet, error) {
	return nil, errNotUsed
}
func (s *store) TagKeys(ctx context.Context, req *datatypes.TagKeysRequest) (cursors.StringIterator, error) {
	return nil, errNotUsed
}
func (s *store) TagValues(ctx context.Context, req *datatypes.TagValuesRequest) (cursors.StringIterator, error) {
	return nil, errNotUsed
}
func (s *store) ReadSeriesCardinality(ctx context.Context, req *datatypes.ReadSeriesCardinalityRequest) (cursors.Int64Iterator, error) {
	return nil, errNotUsed
}
func (s *store) SupportReadSeriesCardinality(ctx context.Context) bool { return false }
func (s *store) GetSource(orgID, bucketID uint64) proto.Message      { return &emptypb.Empty{} }

// WindowAggregate: what v1/services/storage.Store.WindowAggregate does after it has found
// the shards and built the series cursor: the real reads.NewWindowAggregateResultSet.
func (s *store) WindowAggregate(ctx context.Context, req *datatypes.ReadWindowAggregateRequest) (reads.ResultSet, error) {
	its := rmock.Iters(s.shards)
	if reads.IsLastDescendingAggregateOptimization(req) {
		for i, j := 0, len(its)-1; i < j; i, j = i+1, j-1 {
			its[i], its[j] = its[j], its[i]
		}
	}
	sc := &rmock.SeriesCur{Rows: []reads.SeriesRow{{Name: []byte("m"), SeriesTags: s.tags, Tags: s.tags, Field: "v", Query: its}}}
	return reads.NewWindowAggregateResultSet(ctx, req, sc)
}

func nsDur(n int64) flux.Duration {
	if n < 0 {
		return values.MakeDuration(-n, 0, true)
	}
	return values.MakeDuration(n, 0, false)
}

func cell(cr flux.ColReader, j, i int) string {
	switch cr.Cols()[j].Type {
	case flux.TTime:
		a := cr.Times(j)
		if a.IsNull(i) {
			return "~"
		}
		return strconv.FormatInt(a.Value(i), 10)
	case flux.TInt:
		a := cr.Ints(j)
		if a.IsNull(i) {
			return "~"
		}
		return rmock.IntTok(a.Value(i))
	case flux.TUInt:
		a := cr.UInts(j)
		if a.IsNull(i) {
			return "~"
		}
		return rmock.UintTok(a.Value(i))
	case flux.TFloat:
		a := cr.Floats(j)
		if a.IsNull(i) {
			return "~"
		}
		return rmock.FloatTok(a.Value(i))
	case flux.TString:
		a := cr.Strings(j)
		if a.IsNull(i) {
			return "~"
		}
		return rmock.StrTok(a.Value(i))
	case flux.TBool:
		a := cr.Bools(j)
		if a.IsNull(i) {
			return "~"
		}
		return rmock.BoolTok(a.Value(i))
	}
	return "?"
}

var errEndless = errors.New("endless")

func waOp(t []string) (ans string) {
	defer func() {
		if r := recover(); r != nil {
			if s, ok := r.(string); ok && (strings.HasPrefix(s, "bad ") || strings.HasPrefix(s, "empty value") || strings.HasPrefix(s, "shape")) {
				ans = "bad-op"
				return
			}
			if strings.HasPrefix(fmt.Sprint(r), "unsupported for aggregate") {
				ans = "err:panic" // newWindowMin/MaxArrayCursor on a string/boolean cursor
				return
			}
			panic(r)
		}
	}()
	agg := t[1]
	switch agg {
	case "count", "sum", "min", "max", "mean", "first", "last":
	default:
		return "bad-op"
	}
	if len(t[2]) != 1 || !strings.Contains("fiusb", t[2]) {
		return "bad-op"
	}
	typ := t[2][0]
	every, offset := h.Atoi(t[3]), h.Atoi(t[4])
	bstart, bstop := h.Atoi(t[5]), h.Atoi(t[6])
	if (t[7] != "0" && t[7] != "1") || (t[9] != "0" && t[9] != "1") {
		return "bad-op"
	}
	createEmpty, force := t[7] == "1", t[9] == "1"
	timeCol := ""
	switch t[8] {
	case "-":
	case "start":
		timeCol = execute.DefaultStartColLabel
	case "stop":
		timeCol = execute.DefaultStopColLabel
	default:
		return "bad-op"
	}
	shape := rmock.ParseShape(t[10])
	ts := h.ParseInts(t[11])
	vs := h.Split(t[12])
	if len(ts) != len(vs) {
		return "bad-op"
	}
	pts := make([]rmock.Pt, len(ts))
	for i := range ts {
		pts[i] = rmock.Pt{T: ts[i], V: rmock.ParseVal(vs[i])}
		if pts[i].V.Typ != typ || (i > 0 && ts[i] < ts[i-1]) {
			return "bad-op"
		}
	}
	shards := rmock.Cut(typ, shape, pts, true)

	st := &store{tags: models.NewTags(map[string]string{"_field": "v", "_measurement": "m", "host": "a"}), shards: shards}
	rd := storageflux.NewReader(st)
	spec := query.ReadWindowAggregateSpec{
		ReadFilterSpec: query.ReadFilterSpec{
			OrganizationID: 1, BucketID: 2,
			Bounds: execute.Bounds{Start: values.Time(bstart), Stop: values.Time(bstop)},
		},
		Aggregates:     []plan.ProcedureKind{plan.ProcedureKind(agg)},
		CreateEmpty:    createEmpty,
		TimeColumn:     timeCol,
		ForceAggregate: force,
		Window:         execute.Window{Every: nsDur(every), Period: nsDur(every), Offset: nsDur(offset)},
	}
	ti, err := rd.ReadWindowAggregate(context.Background(), spec, memory.DefaultAllocator)
	if err != nil {
		return "err:reader"
	}
	limit := len(pts) + 8000
	var tables []string
	nbuf := 0
	err = ti.Do(func(tbl flux.Table) error {
		key := tbl.Key()
		ks, ke := "?", "?"
		for j, c := range key.Cols() {
			if c.Label == execute.DefaultStartColLabel {
				ks = strconv.FormatInt(int64(key.ValueTime(j)), 10)
			} else if c.Label == execute.DefaultStopColLabel {
				ke = strconv.FormatInt(int64(key.ValueTime(j)), 10)
			}
		}
		var rows []string
		e := tbl.Do(func(cr flux.ColReader) error {
			nbuf++
			if nbuf > limit {
				return errEndless
			}
			js := [4]int{-1, -1, -1, -1}
			for j, c := range cr.Cols() {
				switch c.Label {
				case execute.DefaultStartColLabel:
					js[0] = j
				case execute.DefaultStopColLabel:
					js[1] = j
				case execute.DefaultTimeColLabel:
					js[2] = j
				case execute.DefaultValueColLabel:
					js[3] = j
				}
			}
			for i := 0; i < cr.Len(); i++ {
				var cs [4]string
				for k, j := range js {
					if j < 0 {
						cs[k] = "-"
					} else {
						cs[k] = cell(cr, j, i)
					}
				}
				rows = append(rows, strings.Join(cs[:], ","))
				if len(rows) > limit {
					return errEndless
				}
			}
			return nil
		})
		if e != nil {
			return e
		}
		r := "-"
		if len(rows) > 0 {
			r = strings.Join(rows, ";")
		}
		tables = append(tables, ks+","+ke+":"+r)
		if len(tables) > limit {
			return errEndless
		}
		return nil
	})
	if err != nil {
		if errors.Is(err, errEndless) {
			return "err:endless"
		}
		msg := err.Error()
		switch {
		case strings.Contains(msg, "unsupported input type"):
			return "err:unsupported"
		case strings.Contains(msg, "duration used as an interval"):
			return "err:window"
		}
		return "err:" + strings.Map(func(r rune) rune {
			if r == ' ' || r == '\t' || r == '\n' {
				return '_'
			}
			return r
		}, msg)
	}
	if len(tables) == 0 {
		return "ok -"
	}
	return "ok " + strings.Join(tables, "|")
}

func op(t []string) string {
	if len(t) == 13 && t[0] == "wa" {
		return waOp(t)
	}
	return "bad-op"
}

var aggs = []string{"count", "sum", "min", "max", "mean", "first", "last"}

func genVal(r *h.Rand, typ byte) string {
	switch typ {
	case 'f':
		return rmock.FloatTok(float64(r.Range(-40, 40)) / 4)
	case 'i':
		return rmock.IntTok(r.Range(-9, 9))
	case 'u':
		return rmock.UintTok(uint64(r.Range(0, 12)))
	case 's':
		return rmock.StrTok(h.Pick(r, []string{"", "a", "b", "zz"}))
	default:
		return rmock.BoolTok(r.Bool())
	}
}

func composition(r *h.Rand, n int, maxPart int) []int64 {
	var out []int64
	for n > 0 {
		k := 1 + r.Intn(maxPart)
		if k > n {
			k = n
		}
		out = append(out, int64(k))
		n -= k
	}
	return out
}

func shapeOf(r *h.Rand, parts []int64) string {
	var shards []string
	var cur []int64
	for _, p := range parts {
		if r.Chance(0.2) {
			if len(cur) > 0 {
				shards = append(shards, h.Ints(cur))
				cur = nil
			}
			if r.Chance(0.25) {
				shards = append(shards, h.Pick(r, []string{"-", "0"}))
			}
		}
		cur = append(cur, p)
	}
	if len(cur) > 0 || len(shards) == 0 {
		shards = append(shards, h.Ints(cur))
	}
	return strings.Join(shards, "/")
}

func typFor(r *h.Rand, agg string) byte {
	if (agg == "count" || agg == "first" || agg == "last") && r.Chance(0.2) {
		return h.Pick(r, []byte{'s', 'b'})
	}
	if r.Chance(0.03) {
		return h.Pick(r, []byte{'s', 'b'}) // unsupported combinations
	}
	return h.Pick(r, []byte{'f', 'i', 'u'})
}

func line(agg string, typ byte, every, offset, bs, be int64, ce bool, tc string, force bool, shape string, ts []int64, vals []string) string {
	return fmt.Sprintf("wa %s %c %d %d %d %d %s %s %s %s %s %s", agg, typ, every, offset, bs, be, h.B(ce), tc, h.B(force), shape, h.Ints(ts), h.Join(vals))
}

func pickOffset(r *h.Rand, e int64) int64 {
	return h.Pick(r, []int64{0, 0, 1, -1, 3, e - 1, e, e + 1, -e - 1, 2*e + 1, -7, 1 << 40, -(1 << 40)})
}

func small(r *h.Rand, agg string) string {
	typ := typFor(r, agg)
	every := h.Pick(r, []int64{1, 2, 3, 4, 5, 7, 10, 16, 60})
	if r.Chance(0.03) {
		every = h.Pick(r, []int64{0, -5})
	}
	e := every
	if e <= 0 {
		e = 5
	}
	offset := pickOffset(r, e)
	n := r.Intn(13)
	t := r.Range(-40, 40)
	if r.Chance(0.1) {
		t = h.Pick(r, []int64{1 << 58, -(1 << 58), 1_600_000_000_000_000_000})
	}
	base := t
	ts := make([]int64, n)
	vals := make([]string, n)
	maxGap := 1 + r.Range(0, 2*e)
	for i := 0; i < n; i++ {
		t += r.Range(1, maxGap)
		ts[i] = t
		vals[i] = genVal(r, typ)
	}
	// bounds: around, inside, on window edges, on points
	var bs, be int64
	switch r.Intn(5) {
	case 0:
		bs, be = base-r.Range(0, 3*e), t+1+r.Range(0, 3*e)
	case 1:
		bs, be = base+r.Range(0, 2*e), t-r.Range(0, 2*e)
	case 2: // window-aligned
		bs = offset + e*((base-offset)/e-r.Range(0, 2))
		be = offset + e*((t-offset)/e+1+r.Range(0, 2))
	case 3:
		bs, be = base+1, t
	default:
		bs, be = base-r.Range(0, e), t+r.Range(0, e)
	}
	if n > 0 && r.Chance(0.3) {
		bs = ts[r.Intn(n)]
	}
	if n > 0 && r.Chance(0.3) {
		be = ts[r.Intn(n)] + r.Range(0, 1)
	}
	if be <= bs {
		be = bs + 1 + r.Range(0, 2*e)
	}
	if (be-bs)/e > 400 {
		be = bs + 400*e
	}
	tc := h.Pick(r, []string{"-", "-", "start", "stop"})
	return line(agg, typ, every, offset, bs, be, r.Chance(0.5), tc, r.Chance(0.25), shapeOf(r, composition(r, n, 1+r.Intn(5))), ts, vals)
}

// big: more than MaxPointsPerBlock windows and/or rows
func big(r *h.Rand, agg string, dense bool) string {
	typ := h.Pick(r, []byte{'f', 'i', 'u'})
	every := h.Pick(r, []int64{1, 2, 5})
	offset := pickOffset(r, every)
	windows := int(h.Pick(r, []int64{1000, 1001, 1300, 2001, 2300}))
	t := r.Range(-50, 50)
	t -= ((t-offset)%every + every) % every
	bs := t - r.Range(0, every-1)
	var ts []int64
	var vals []string
	for w := 0; w < windows; w++ {
		p := 0.01
		if dense {
			p = 0.9
		}
		if r.Chance(p) || (!dense && w == 3) {
			ts = append(ts, t+r.Range(0, every-1))
			vals = append(vals, genVal(r, typ))
			if every > 1 && r.Chance(0.3) && ts[len(ts)-1] < t+every-1 {
				ts = append(ts, ts[len(ts)-1]+1)
				vals = append(vals, genVal(r, typ))
			}
		}
		t += every
	}
	be := t - r.Range(0, every-1)
	tc := h.Pick(r, []string{"-", "start", "stop"})
	return line(agg, typ, every, offset, bs, be, r.Chance(0.7), tc, r.Chance(0.25), shapeOf(r, composition(r, len(ts), 1200)), ts, vals)
}

func gen(r *h.Rand, tier string, emit func([]string)) {
	nSmall, nBig := 160, 1
	if tier == "thorough" {
		nSmall, nBig = 2000, 6
	}
	for _, agg := range aggs {
		var ops []string
		for i := 0; i < nSmall; i++ {
			ops = append(ops, small(r, agg))
			if len(ops) == 20 {
				emit(ops)
				ops = nil
			}
		}
		if len(ops) > 0 {
			emit(ops)
		}
	}
	for _, agg := range aggs {
		for i := 0; i < nBig; i++ {
			emit([]string{big(r, agg, false)})
			emit([]string{big(r, agg, true)})
		}
	}
	emit([]string{"wa count f 1 0 0 10 0 - 0 1 1", "wa nope f 1 0 0 10 0 - 0 1 1 f0000000000000000", "frob",
		"wa count f 1 0 0 10 2 - 0 1 1 f0000000000000000", "wa count f 1 0 0 10 0 time 0 1 1 f0000000000000000"})
}

func main() { h.Main(h.Harness{Gen: gen, NewCase: h.Stateless(op)}) }
