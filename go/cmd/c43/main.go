// Harness for C43 (v1 database/retention-policy names resolve to one bucket): the real
// dbrp.Service on an in-memory kv store, a list-backed influxdb.BucketService for the
// virtual mappings, and the real dbrp.BucketService wrapper for bucket deletion.
package main

import (
	"context"
	"encoding/json"
	"errors"
	"fmt"
	"sort"
	"strconv"
	"strings"

	influxdb "github.com/influxdata/influxdb/v2"
	"github.com/influxdata/influxdb/v2/dbrp"
	"github.com/influxdata/influxdb/v2/inmem"
	"github.com/influxdata/influxdb/v2/kit/platform"
	ierrors "github.com/influxdata/influxdb/v2/kit/platform/errors"
	"github.com/influxdata/influxdb/v2/kv"
	"go.uber.org/zap"
	"verif/harness/h"
)

var errBucketNotFound = errors.New("bucket not found")

// bucketSvc: buckets in insertion order.
type bucketSvc struct{ bs []*influxdb.Bucket }

func (s *bucketSvc) FindBucketByID(_ context.Context, id platform.ID) (*influxdb.Bucket, error) {
	for _, b := range s.bs {
		if b.ID == id {
			c := *b
			return &c, nil
		}
	}
	return nil, errBucketNotFound
}
func (s *bucketSvc) FindBucket(context.Context, influxdb.BucketFilter) (*influxdb.Bucket, error) {
	return nil, errBucketNotFound
}
func (s *bucketSvc) FindBuckets(_ context.Context, f influxdb.BucketFilter, _ ...influxdb.FindOptions) ([]*influxdb.Bucket, int, error) {
	var out []*influxdb.Bucket
	for _, b := range s.bs {
		if (f.ID == nil || *f.ID == b.ID) && (f.OrganizationID == nil || *f.OrganizationID == b.OrgID) {
			c := *b
			out = append(out, &c)
		}
	}
	return out, len(out), nil
}
func (s *bucketSvc) CreateBucket(context.Context, *influxdb.Bucket) error { return errors.New("unused") }
func (s *bucketSvc) UpdateBucket(context.Context, platform.ID, influxdb.BucketUpdate) (*influxdb.Bucket, error) {
	return nil, errors.New("unused")
}
func (s *bucketSvc) DeleteBucket(_ context.Context, id platform.ID) error {
	for i, b := range s.bs {
		if b.ID == id {
			s.bs = append(append([]*influxdb.Bucket(nil), s.bs[:i]...), s.bs[i+1:]...)
			return nil
		}
	}
	return errBucketNotFound
}
func (s *bucketSvc) FindBucketByName(context.Context, platform.ID, string) (*influxdb.Bucket, error) {
	return nil, errBucketNotFound
}

// seqGen: 1, 3, 5, … (bucket ids are even, so the two id spaces never meet).
type seqGen struct{ next uint64 }

func (g *seqGen) ID() platform.ID { v := g.next; g.next += 2; return platform.ID(v) }

var kvBuckets = []string{"dbrpv1", "dbrpbyorganddbindexv1", "dbrpbyorgv1", "dbrpdefaultv1"}

type runner struct {
	store *inmem.KVStore
	bs    *bucketSvc
	svc   *dbrp.Service
	del   *dbrp.BucketService
}

func newRunner() h.CaseRunner {
	ctx := context.Background()
	st := inmem.NewKVStore()
	for _, b := range kvBuckets {
		if err := st.CreateBucket(ctx, []byte(b)); err != nil {
			panic(err)
		}
	}
	bs := &bucketSvc{}
	svc := dbrp.NewService(ctx, bs, st).(*dbrp.Service)
	svc.IDGen = &seqGen{next: 1}
	return &runner{store: st, bs: bs, svc: svc, del: dbrp.NewBucketService(zap.NewNop(), bs, svc)}
}

func (r *runner) Close() {}

func errEnum(err error) string {
	if errors.Is(err, errBucketNotFound) {
		return "err:bucket-not-found"
	}
	switch ierrors.ErrorCode(err) {
	case ierrors.ENotFound:
		return "err:not-found"
	case ierrors.EInvalid:
		return "err:invalid"
	case ierrors.EConflict:
		return "err:exists"
	case ierrors.EInternal:
		return "err:internal"
	}
	return "err:other:" + strings.ReplaceAll(err.Error(), " ", "_")
}

func showMapping(m *influxdb.DBRPMapping) string {
	return fmt.Sprintf("%d/%s/%s/%s/%s/%d/%d", uint64(m.ID), h.HexS(m.Database), h.HexS(m.RetentionPolicy),
		h.B(m.Default), h.B(m.Virtual), uint64(m.OrganizationID), uint64(m.BucketID))
}

func isID(s string) bool { _, err := strconv.ParseUint(s, 10, 64); return err == nil && !strings.HasPrefix(s, "+") }
func isHex(s string) bool {
	_, err := h.UnHex(s)
	return err == nil
}
func id(s string) platform.ID { v, _ := strconv.ParseUint(s, 10, 64); return platform.ID(v) }
func str(s string) string    { return string(h.MustUnHex(s)) }

func wellFormed(t []string) bool {
	opt := func(s string, f func(string) bool) bool { return s == "~" || f(s) }
	isB := func(s string) bool { return s == "0" || s == "1" }
	switch t[0] {
	case "bucket":
		return len(t) == 4 && isID(t[1]) && isID(t[2]) && isHex(t[3])
	case "delbucket":
		return len(t) == 2 && isID(t[1])
	case "create":
		return len(t) == 6 && isID(t[1]) && isHex(t[2]) && isHex(t[3]) && isB(t[4]) && isID(t[5])
	case "update":
		return len(t) == 5 && isID(t[1]) && isID(t[2]) && opt(t[3], isHex) && opt(t[4], isB)
	case "delete", "get":
		return len(t) == 3 && isID(t[1]) && isID(t[2])
	case "find":
		return len(t) == 8 && opt(t[1], isID) && opt(t[2], isID) && opt(t[3], isID) && opt(t[4], isHex) && opt(t[5], isHex) && opt(t[6], isB) && opt(t[7], isB)
	case "dump":
		return len(t) == 1
	}
	return false
}

func (r *runner) Op(t []string) (ans string) {
	if len(t) == 0 || !wellFormed(t) {
		return "bad-op"
	}
	defer func() {
		if p := recover(); p != nil {
			ans = "panic"
		}
	}()
	ctx := context.Background()
	switch t[0] {
	case "bucket":
		bid := id(t[2])
		if bid == 0 {
			return "err:exists"
		}
		if _, err := r.bs.FindBucketByID(ctx, bid); err == nil {
			return "err:exists"
		}
		r.bs.bs = append(r.bs.bs, &influxdb.Bucket{ID: bid, OrgID: id(t[1]), Name: str(t[3])})
		return "ok"
	case "delbucket":
		if err := r.del.DeleteBucket(ctx, id(t[1])); err != nil {
			return errEnum(err)
		}
		return "ok"
	case "create":
		m := &influxdb.DBRPMapping{Database: str(t[2]), RetentionPolicy: str(t[3]), Default: t[4] == "1", OrganizationID: id(t[1]), BucketID: id(t[5])}
		if err := r.svc.Create(ctx, m); err != nil {
			return errEnum(err)
		}
		return "m=" + showMapping(m)
	case "update":
		m, err := r.svc.FindByID(ctx, id(t[1]), id(t[2]))
		if err != nil {
			return errEnum(err)
		}
		if t[3] != "~" {
			m.RetentionPolicy = str(t[3])
		}
		if t[4] != "~" {
			m.Default = t[4] == "1"
		}
		if err := r.svc.Update(ctx, m); err != nil {
			return errEnum(err)
		}
		return "m=" + showMapping(m)
	case "delete":
		if err := r.svc.Delete(ctx, id(t[1]), id(t[2])); err != nil {
			return errEnum(err)
		}
		return "ok"
	case "get":
		m, err := r.svc.FindByID(ctx, id(t[1]), id(t[2]))
		if err != nil {
			return errEnum(err)
		}
		return "m=" + showMapping(m)
	case "find":
		var f influxdb.DBRPMappingFilter
		pid := func(s string) *platform.ID {
			if s == "~" {
				return nil
			}
			v := id(s)
			return &v
		}
		pstr := func(s string) *string {
			if s == "~" {
				return nil
			}
			v := str(s)
			return &v
		}
		pb := func(s string) *bool {
			if s == "~" {
				return nil
			}
			v := s == "1"
			return &v
		}
		f.ID, f.OrgID, f.BucketID = pid(t[1]), pid(t[2]), pid(t[3])
		f.Database, f.RetentionPolicy, f.Default, f.Virtual = pstr(t[4]), pstr(t[5]), pb(t[6]), pb(t[7])
		ms, _, err := r.svc.FindMany(ctx, f)
		if err != nil {
			return errEnum(err)
		}
		ss := make([]string, len(ms))
		for i, m := range ms {
			ss[i] = showMapping(m)
		}
		return "ms=" + h.Join(ss)
	case "dump":
		return r.dump()
	}
	return "bad-op"
}

func hexID(b []byte) uint64 {
	var v platform.ID
	if err := v.Decode(b); err != nil {
		panic("bad id in kv: " + string(b))
	}
	return uint64(v)
}

type triple struct {
	org uint64
	db  string
	id  uint64
}

func (r *runner) dump() string {
	var recs, byorg []string
	var idx, defs []triple
	type pair struct{ a, b uint64 }
	var pairs []pair
	err := r.store.View(context.Background(), func(tx kv.Tx) error {
		each := func(name string, f func(k, v []byte)) error {
			b, err := tx.Bucket([]byte(name))
			if err != nil {
				return err
			}
			c, err := b.ForwardCursor(nil)
			if err != nil {
				return err
			}
			for k, v := c.Next(); k != nil; k, v = c.Next() {
				f(k, v)
			}
			return c.Close()
		}
		if err := each("dbrpv1", func(k, v []byte) {
			var m influxdb.DBRPMapping
			if err := json.Unmarshal(v, &m); err != nil {
				panic(err)
			}
			if uint64(m.ID) != hexID(k) {
				panic("record key differs from its id")
			}
			recs = append(recs, showMapping(&m))
		}); err != nil {
			return err
		}
		if err := each("dbrpbyorganddbindexv1", func(k, v []byte) {
			// hex16(org) ++ db ++ "/" ++ hex16(id)
			idx = append(idx, triple{hexID(k[:16]), string(k[16 : len(k)-17]), hexID(k[len(k)-16:])})
		}); err != nil {
			return err
		}
		if err := each("dbrpbyorgv1", func(k, v []byte) {
			pairs = append(pairs, pair{hexID(k[:16]), hexID(k[17:])})
		}); err != nil {
			return err
		}
		return each("dbrpdefaultv1", func(k, v []byte) {
			defs = append(defs, triple{hexID(k[:16]), string(k[16:]), hexID(v)})
		})
	})
	if err != nil {
		return "err:dump:" + strings.ReplaceAll(err.Error(), " ", "_")
	}
	less := func(a, b triple) bool {
		if a.org != b.org {
			return a.org < b.org
		}
		if a.db != b.db {
			return a.db < b.db
		}
		return a.id < b.id
	}
	sort.Slice(idx, func(i, j int) bool { return less(idx[i], idx[j]) })
	sort.Slice(defs, func(i, j int) bool { return less(defs[i], defs[j]) })
	sort.Slice(pairs, func(i, j int) bool {
		if pairs[i].a != pairs[j].a {
			return pairs[i].a < pairs[j].a
		}
		return pairs[i].b < pairs[j].b
	})
	st := func(ts []triple) string {
		ss := make([]string, len(ts))
		for i, t := range ts {
			ss[i] = fmt.Sprintf("%d/%s/%d", t.org, h.HexS(t.db), t.id)
		}
		return h.Join(ss)
	}
	for _, p := range pairs {
		byorg = append(byorg, fmt.Sprintf("%d/%d", p.a, p.b))
	}
	return "recs=" + h.Join(recs) + " idx=" + st(idx) + " byorg=" + h.Join(byorg) + " defs=" + st(defs)
}

// ---------------------------------------------------------------- generator

var orgs = []uint64{1, 2}
var dbsN = []string{"db0", "db1"}
var rpsN = []string{"rp0", "rp1", "autogen"}

func opt(r *h.Rand, p float64, s string) string {
	if r.Chance(p) {
		return s
	}
	return "~"
}

type gstate struct {
	ids     []uint64 // dbrp ids handed out so far (1,3,5,…; some creates fail and burn one)
	next    uint64
	buckets []uint64
}

func genCase(r *h.Rand, virtualMut bool, emit func([]string)) {
	g := &gstate{next: 1}
	var ops []string
	nb := 2 + r.Intn(4)
	names := []string{"db0", "db1", "db0/rp0", "db0/rp1", "db1/rp1", "db0/autogen", "other", "db1/rp0/x", "db0/", "/rp0"}
	for i := 0; i < nb; i++ {
		bid := uint64(1000 + 2*i)
		ops = append(ops, fmt.Sprintf("bucket %d %d %s", h.Pick(r, orgs), bid, h.HexS(h.Pick(r, names))))
		g.buckets = append(g.buckets, bid)
	}
	listing := func(org uint64) { ops = append(ops, fmt.Sprintf("find ~ %d ~ ~ ~ ~ ~", org)) }
	anyID := func() uint64 {
		if len(g.ids) > 0 && r.Chance(0.85) {
			return h.Pick(r, g.ids)
		}
		if virtualMut && r.Chance(0.7) {
			return h.Pick(r, g.buckets)
		}
		return uint64(1 + 2*r.Intn(12))
	}
	steps := 6 + r.Intn(14)
	for s := 0; s < steps; s++ {
		org := h.Pick(r, orgs)
		switch k := r.Intn(20); {
		case k < 6:
			db, rp := h.Pick(r, dbsN), h.Pick(r, rpsN)
			if r.Chance(0.05) {
				db = h.Pick(r, []string{"", ".", "a/b", "a\\b", "x\ny", ".."})
			}
			b := h.Pick(r, g.buckets)
			if r.Chance(0.05) {
				b = 4242
			}
			ops = append(ops, fmt.Sprintf("create %d %s %s %s %d", org, h.HexS(db), h.HexS(rp), h.B(r.Chance(0.4)), b))
			g.ids = append(g.ids, g.next)
			g.next += 2
		case k < 9:
			rp := "~"
			if r.Chance(0.6) {
				rp = h.HexS(h.Pick(r, rpsN))
			}
			d := "~"
			if r.Chance(0.7) {
				d = h.B(r.Bool())
			}
			ops = append(ops, fmt.Sprintf("update %d %d %s %s", org, anyID(), rp, d))
		case k < 12:
			ops = append(ops, fmt.Sprintf("delete %d %d", org, anyID()))
		case k < 13:
			ops = append(ops, fmt.Sprintf("get %d %d", org, anyID()))
		case k < 14 && !virtualMut:
			if r.Bool() {
				ops = append(ops, fmt.Sprintf("delbucket %d", h.Pick(r, g.buckets)))
			} else {
				bid := uint64(1000 + 2*len(g.buckets))
				ops = append(ops, fmt.Sprintf("bucket %d %d %s", org, bid, h.HexS(h.Pick(r, names))))
				g.buckets = append(g.buckets, bid)
			}
		case k < 15:
			ops = append(ops, "dump")
		default:
			// the statement's observations: listing, then lookups that must agree with it
			listing(org)
			for j := 0; j < 1+r.Intn(3); j++ {
				db := h.Pick(r, dbsN)
				if r.Bool() {
					ops = append(ops, fmt.Sprintf("find ~ %d ~ %s %s ~ ~", org, h.HexS(db), h.HexS(h.Pick(r, rpsN))))
				} else {
					ops = append(ops, fmt.Sprintf("find ~ %d ~ %s ~ 1 ~", org, h.HexS(db)))
				}
			}
		}
		if r.Chance(0.1) { // arbitrary filters (correspondence only)
			ops = append(ops, fmt.Sprintf("find %s %s %s %s %s %s %s", opt(r, 0.2, strconv.FormatUint(anyID(), 10)), opt(r, 0.6, strconv.FormatUint(org, 10)),
				opt(r, 0.2, strconv.FormatUint(h.Pick(r, g.buckets), 10)), opt(r, 0.4, h.HexS(h.Pick(r, append(dbsN, "")))), opt(r, 0.3, h.HexS(h.Pick(r, rpsN))),
				opt(r, 0.3, h.B(r.Bool())), opt(r, 0.3, h.B(r.Bool()))))
		}
	}
	for _, org := range orgs {
		listing(org)
		for _, db := range dbsN {
			ops = append(ops, fmt.Sprintf("find ~ %d ~ %s ~ 1 ~", org, h.HexS(db)))
			for _, rp := range rpsN {
				ops = append(ops, fmt.Sprintf("find ~ %d ~ %s %s ~ ~", org, h.HexS(db), h.HexS(rp)))
			}
		}
	}
	ops = append(ops, "dump")
	emit(ops)
}

func gen(r *h.Rand, tier string, emit func([]string)) {
	emit([]string{"frob", "create 1 " + h.HexS("db0") + " " + h.HexS("rp0") + " 0 1000", "bucket 1 1000 " + h.HexS("db0"), "bucket 1 1000 " + h.HexS("x"),
		"bucket 1 0 " + h.HexS("x"), "create 0 " + h.HexS("db0") + " " + h.HexS("rp0") + " 0 1000", "create 1 " + h.HexS("db0") + " " + h.HexS("rp0") + " 0 0",
		"get 1 0", "get 0 1000", "delete 0 1000", "delete 1 0", "update 1 0 ~ ~", "update 1 77 ~ 1", "find ~ ~ ~ ~ ~ ~ ~", "find x ~ ~ ~ ~ ~ ~", "delbucket 5", "dump",
		"create 1 " + h.HexS("db0") + " zz 0 1000"})
	n := 600
	if tier == "thorough" {
		n = 8000
	}
	for i := 0; i < n; i++ {
		genCase(r, i%5 == 4, emit)
	}
}

func main() { h.Main(h.Harness{Gen: gen, NewCase: newRunner}) }
