// Harness for C38: drives the real tsdb.Store / tsdb.Shard / tsm1.Engine
// Backup, Export, Restore and Import in-process.
//
// One case = one source store with one shard (WAL on, background compactions
// disabled) plus fresh target stores created by `restore` / `import` ops.
//
//	w <k> <t0> <step> <n> <v0>   write n integer points of series m,k=<k> field v
//	d <k,k,..> <min> <max>       Shard.DeleteSeriesRange (inclusive range)
//	snap                         Engine.WriteSnapshot (cache -> new TSM file)
//	compact                      full compaction of all TSM files (engine's own strategy)
//	age <ns>                     os.Chtimes every "fresh" file (mtime after 2001) of the shard dir to <ns> nanoseconds after the epoch
//	backup <id> <since-ns|->     Store.BackupShard into archive <id> (since in ns after the epoch; - = zero time)
//	export <id> <start> <end>    Store.ExportShard [start,end] ns into archive <id>
//	restore <id>[,<id>..]        fresh store+shard, Store.RestoreShard each archive in turn, dump
//	import <id>[,<id>..]         fresh store+shard, Store.ImportShard each archive in turn, dump
//	dump                         read everything from the source shard
package main

import (
	"archive/tar"
	"bytes"
	"context"
	"errors"
	"fmt"
	"go/ast"
	"go/parser"
	"go/token"
	"io"
	"os"
	"path/filepath"
	"sort"
	"strconv"
	"strings"
	"time"

	"github.com/influxdata/influxdb/v2/models"
	"github.com/influxdata/influxdb/v2/tsdb"
	"github.com/influxdata/influxdb/v2/tsdb/cursors"
	_ "github.com/influxdata/influxdb/v2/tsdb/engine"
	"github.com/influxdata/influxdb/v2/tsdb/engine/tsm1"
	_ "github.com/influxdata/influxdb/v2/tsdb/index"
	"github.com/influxdata/influxql"
	"verif/harness/h"
)

const (
	nKeys = 6 // universe of series k0..k5
	// mtimes are nanoseconds since the epoch; anything after 2001-09-09 is "fresh"
	freshAfter = int64(1_000_000_000) * 1_000_000_000
)

type store struct {
	root string
	st   *tsdb.Store
}

func openStore() (*store, error) {
	// shard directories are fsync-heavy (series file, tsi1, WAL): prefer a tmpfs
	base := ""
	if os.Getenv("TMPDIR") == "" {
		if fi, err := os.Stat("/dev/shm"); err == nil && fi.IsDir() {
			base = "/dev/shm"
		}
	}
	root, err := os.MkdirTemp(base, "verif-c38-")
	if err != nil && base != "" {
		root, err = os.MkdirTemp("", "verif-c38-")
	}
	if err != nil {
		return nil, err
	}
	s := tsdb.NewStore(filepath.Join(root, "data"))
	s.EngineOptions.Config.WALDir = filepath.Join(root, "wal")
	s.EngineOptions.CompactionDisabled = true
	// Engine.DeleteSeriesRange ends with enableLevelCompactions(true), which STARTS the
	// background compaction loop even on a shard opened with compactions disabled.
	// A planner that never plans keeps the file set a function of the op sequence.
	s.EngineOptions.CompactionPlannerCreator = func(tsdb.Config) interface{} { return &nullPlanner{} }
	s.EngineOptions.MonitorDisabled = true
	s.EngineOptions.MetricsDisabled = true
	if err := s.Open(context.Background()); err != nil {
		os.RemoveAll(root)
		return nil, err
	}
	if err := s.CreateShard(context.Background(), "db", "rp", 1, true); err != nil {
		s.Close()
		os.RemoveAll(root)
		return nil, err
	}
	return &store{root: root, st: s}, nil
}

// nullPlanner never schedules a background compaction.
type nullPlanner struct{}

func (*nullPlanner) FindGenerations() tsm1.TsmGenerations { return nil }
func (*nullPlanner) Plan(tsm1.TsmGenerations, time.Time) ([]tsm1.CompactionGroup, int64) {
	return nil, 0
}
func (*nullPlanner) PlanLevel(tsm1.TsmGenerations, int) ([]tsm1.CompactionGroup, int64) {
	return nil, 0
}
func (*nullPlanner) PlanOptimize(tsm1.TsmGenerations, time.Time) ([]tsm1.CompactionGroup, int64, int64) {
	return nil, 0, 0
}
func (*nullPlanner) Release([]tsm1.CompactionGroup)             {}
func (*nullPlanner) FullyCompacted() (bool, string)             { return true, "" }
func (*nullPlanner) ForceFull()                                 {}
func (*nullPlanner) SetFileStore(*tsm1.FileStore)               {}
func (*nullPlanner) SetAggressiveCompactionPointsPerBlock(int)  {}
func (*nullPlanner) GetAggressiveCompactionPointsPerBlock() int { return 0 }

func (s *store) close() {
	if s == nil {
		return
	}
	done := make(chan struct{})
	go func() {
		defer close(done)
		defer func() { recover() }()
		s.st.Close()
	}()
	select {
	case <-done:
	case <-time.After(20 * time.Second):
	}
	os.RemoveAll(s.root)
}

func (s *store) shardDir() string { return filepath.Join(s.root, "data", "db", "rp", "1") }

func seriesTags(k int) models.Tags {
	return models.NewTags(map[string]string{"k": strconv.Itoa(k)})
}

// ---------------------------------------------------------------- reading

func (s *store) dump() string {
	sh := s.st.Shard(1)
	if sh == nil {
		return "err=noshard"
	}
	ctx := context.Background()
	var parts []string
	for k := 0; k < nKeys; k++ {
		ci, err := sh.CreateCursorIterator(ctx)
		if err != nil {
			return "err=" + errEnum(err)
		}
		cur, err := ci.Next(ctx, &cursors.CursorRequest{
			Name: []byte("m"), Tags: seriesTags(k), Field: "v", Ascending: true,
			StartTime: models.MinNanoTime, EndTime: models.MaxNanoTime,
		})
		if err != nil {
			return "err=" + errEnum(err)
		}
		if cur == nil {
			continue
		}
		ic, ok := cur.(cursors.IntegerArrayCursor)
		if !ok {
			cur.Close()
			return "err=cursor-type"
		}
		var sb strings.Builder
		n := 0
		for {
			a := ic.Next()
			if a.Len() == 0 {
				break
			}
			for i := range a.Timestamps {
				if n > 0 {
					sb.WriteByte(',')
				}
				fmt.Fprintf(&sb, "%d=%d", a.Timestamps[i], a.Values[i])
				n++
			}
		}
		ic.Close()
		if n > 0 {
			parts = append(parts, fmt.Sprintf("k%d:%s", k, sb.String()))
		}
	}
	pts := "-"
	if len(parts) > 0 {
		pts = strings.Join(parts, ";")
	}
	return "pts=" + pts + " series=" + s.series()
}

func (s *store) series() string {
	sh := s.st.Shard(1)
	idx, err := sh.Index()
	if err != nil {
		return "err:" + errEnum(err)
	}
	sf, err := sh.SeriesFile()
	if err != nil {
		return "err:" + errEnum(err)
	}
	is := tsdb.IndexSet{Indexes: []tsdb.Index{idx}, SeriesFile: sf}
	keys, err := is.MeasurementSeriesKeysByExpr([]byte("m"), nil)
	if err != nil {
		return "err:" + errEnum(err)
	}
	var out []string
	for _, k := range keys {
		_, tags := models.ParseKeyBytes(k)
		out = append(out, "k"+tags.GetString("k"))
	}
	sort.Strings(out)
	return h.Join(out)
}

func errEnum(err error) string {
	if err == nil {
		return "ok"
	}
	msg := err.Error()
	switch {
	case errors.Is(err, tsdb.ErrEngineClosed):
		return "engine-closed"
	case strings.Contains(msg, "no such file"):
		return "enoent"
	case strings.Contains(msg, "no values written"):
		return "novalues"
	case strings.Contains(msg, "unexpected EOF"):
		return "eof"
	case strings.Contains(msg, "snapshot in progress"):
		return "snapshot-in-progress"
	}
	if os.Getenv("VERIF_DEBUG") != "" {
		fmt.Fprintln(os.Stderr, "error:", msg)
	}
	return "other"
}

// ---------------------------------------------------------------- the case runner

type runner struct {
	src      *store
	archives map[string][]byte
	isExport map[string]bool
	err      error
}

func newCase() h.CaseRunner {
	s, err := openStore()
	return &runner{src: s, archives: map[string][]byte{}, isExport: map[string]bool{}, err: err}
}

func (r *runner) Close() { r.src.close() }

type sliceSeriesIterator struct {
	ks []int
	i  int
}
type seriesElem struct{ k int }

func (e seriesElem) Name() []byte            { return []byte("m") }
func (e seriesElem) Tags() models.Tags       { return seriesTags(e.k) }
func (e seriesElem) Deleted() bool           { return false }
func (e seriesElem) Expr() influxql.Expr     { return nil }
func (it *sliceSeriesIterator) Close() error { return nil }
func (it *sliceSeriesIterator) Next() (tsdb.SeriesElem, error) {
	if it.i >= len(it.ks) {
		return nil, nil
	}
	it.i++
	return seriesElem{it.ks[it.i-1]}, nil
}

func (r *runner) engine() *tsm1.Engine {
	sh := r.src.st.Shard(1)
	e, err := sh.Engine()
	if err != nil {
		return nil
	}
	te, _ := e.(*tsm1.Engine)
	return te
}

// blocks lists every index entry (file, key, MinTime, MaxTime) of the source's TSM files.
func (r *runner) blocks() string {
	e := r.engine()
	if e == nil {
		return "err"
	}
	var out []string
	for _, f := range e.FileStore.Files() {
		name := shortName(filepath.Base(f.Path()))
		it := f.BlockIterator()
		for it.Next() {
			key, minT, maxT, _, _, _, err := it.Read()
			if err != nil {
				return "err"
			}
			sk, _ := tsm1.SeriesAndFieldFromCompositeKey(key)
			_, tags := models.ParseKeyBytes(sk)
			out = append(out, fmt.Sprintf("%s:k%s:%d:%d", name, tags.GetString("k"), minT, maxT))
		}
		if it.Err() != nil {
			return "err"
		}
	}
	return h.Join(out)
}

// listing of the shard directory: tsm and tombstone files with their mtimes
// ("F" = fresh, i.e. written by the engine at wall-clock time and not aged yet).
func listFiles(dir string) string {
	ents, err := os.ReadDir(dir)
	if err != nil {
		return "err"
	}
	var out []string
	for _, e := range ents {
		n := e.Name()
		if e.IsDir() || !(strings.HasSuffix(n, ".tsm") || strings.HasSuffix(n, ".tombstone")) {
			continue
		}
		fi, err := e.Info()
		if err != nil {
			continue
		}
		mt := "F"
		if fi.ModTime().UnixNano() < freshAfter {
			mt = strconv.FormatInt(fi.ModTime().UnixNano(), 10)
		}
		out = append(out, shortName(n)+"@"+mt)
	}
	return h.Join(out)
}

// 000000002-000000001.tsm -> 2-1.tsm
func shortName(n string) string {
	base, ext, _ := strings.Cut(n, ".")
	g, s, ok := strings.Cut(base, "-")
	if !ok {
		return n
	}
	gi, err1 := strconv.Atoi(g)
	si, err2 := strconv.Atoi(s)
	if err1 != nil || err2 != nil {
		return n
	}
	return fmt.Sprintf("%d-%d.%s", gi, si, ext)
}

func archiveNames(b []byte) string {
	tr := tar.NewReader(bytes.NewReader(b))
	var out []string
	for {
		hdr, err := tr.Next()
		if err == io.EOF {
			break
		}
		if err != nil {
			out = append(out, "!bad-tar")
			break
		}
		name := shortName(filepath.Base(filepath.FromSlash(hdr.Name)))
		if !strings.HasPrefix(filepath.ToSlash(hdr.Name), "db/rp/1/") {
			name = "!prefix:" + name
		}
		out = append(out, name)
	}
	return h.Join(out)
}

func (r *runner) Op(t []string) string {
	if r.err != nil {
		return "harness-error"
	}
	if len(t) == 0 {
		return "bad-op"
	}
	ctx := context.Background()
	sh := r.src.st.Shard(1)
	switch t[0] {
	case "w":
		if len(t) != 6 {
			return "bad-op"
		}
		k, t0, step, n, v0 := int(h.Atoi(t[1])), h.Atoi(t[2]), h.Atoi(t[3]), int(h.Atoi(t[4])), h.Atoi(t[5])
		if k < 0 || k >= nKeys || n <= 0 || n > 100000 {
			return "bad-op"
		}
		pts := make([]models.Point, 0, n)
		for i := 0; i < n; i++ {
			p, err := models.NewPoint("m", seriesTags(k), models.Fields{"v": v0 + int64(i)}, time.Unix(0, t0+int64(i)*step))
			if err != nil {
				return "bad-op"
			}
			pts = append(pts, p)
		}
		return errEnum(r.src.st.WriteToShard(ctx, 1, pts))
	case "d":
		if len(t) != 4 {
			return "bad-op"
		}
		var ks []int
		for _, v := range h.ParseInts(t[1]) {
			if v < 0 || v >= nKeys {
				return "bad-op"
			}
			ks = append(ks, int(v))
		}
		if h.Atoi(t[2]) > h.Atoi(t[3]) {
			return "bad-op"
		}
		return errEnum(sh.DeleteSeriesRange(ctx, &sliceSeriesIterator{ks: ks}, h.Atoi(t[2]), h.Atoi(t[3])))
	case "snap":
		e := r.engine()
		if e == nil {
			return "engine-closed"
		}
		return errEnum(e.WriteSnapshot())
	case "compact":
		e := r.engine()
		if e == nil {
			return "engine-closed"
		}
		var group tsm1.CompactionGroup
		for _, f := range e.FileStore.Files() {
			group = append(group, f.Path())
		}
		if len(group) == 0 {
			return "ok"
		}
		e.VerifC38CompactFull(group)
		return "ok"
	case "age":
		if len(t) != 2 {
			return "bad-op"
		}
		sec := h.Atoi(t[1])
		if sec < 0 || sec >= freshAfter {
			return "bad-op"
		}
		dir := r.src.shardDir()
		ents, err := os.ReadDir(dir)
		if err != nil {
			return "harness-error"
		}
		for _, e := range ents {
			fi, err := e.Info()
			if err != nil || e.IsDir() {
				continue
			}
			if fi.ModTime().UnixNano() >= freshAfter {
				tm := time.Unix(0, sec)
				if err := os.Chtimes(filepath.Join(dir, e.Name()), tm, tm); err != nil {
					return "harness-error"
				}
			}
		}
		return "ok"
	case "backup":
		if len(t) != 3 || strings.Contains(t[1], ",") {
			return "bad-op"
		}
		var since time.Time
		if t[2] != "-" {
			since = time.Unix(0, h.Atoi(t[2]))
		}
		var buf bytes.Buffer
		if err := r.src.st.BackupShard(1, since, &buf); err != nil {
			return "err=" + errEnum(err)
		}
		r.archives[t[1]] = buf.Bytes()
		r.isExport[t[1]] = false
		// the listing is taken after the backup (Backup itself snapshots the cache first)
		return "arch=" + archiveNames(buf.Bytes()) + " files=" + listFiles(r.src.shardDir()) + " blocks=" + r.blocks() + " " + r.src.dump()
	case "export":
		if len(t) != 4 || strings.Contains(t[1], ",") {
			return "bad-op"
		}
		if h.Atoi(t[2]) > h.Atoi(t[3]) {
			return "bad-op"
		}
		var buf bytes.Buffer
		err := r.src.st.ExportShard(1, time.Unix(0, h.Atoi(t[2])), time.Unix(0, h.Atoi(t[3])), &buf)
		if err != nil {
			return "err=" + errEnum(err) + " files=" + listFiles(r.src.shardDir()) + " blocks=" + r.blocks()
		}
		r.archives[t[1]] = buf.Bytes()
		r.isExport[t[1]] = true
		return "arch=" + archiveNames(buf.Bytes()) + " files=" + listFiles(r.src.shardDir()) + " blocks=" + r.blocks() + " " + r.src.dump()
	case "restore", "import":
		if len(t) != 2 {
			return "bad-op"
		}
		ids := h.Split(t[1])
		for _, id := range ids {
			if _, ok := r.archives[id]; !ok {
				return "no-archive"
			}
		}
		if t[0] == "restore" {
			// restoring an Export archive is outside the property
			for _, id := range ids {
				if r.isExport[id] {
					return "bad-op"
				}
			}
		}
		dst, err := openStore()
		if err != nil {
			return "harness-error"
		}
		defer dst.close()
		for _, id := range ids {
			rd := bytes.NewReader(r.archives[id])
			if t[0] == "restore" {
				err = dst.st.RestoreShard(ctx, 1, rd)
			} else {
				err = dst.st.ImportShard(1, rd)
			}
			if err != nil {
				return "err=" + errEnum(err)
			}
		}
		return "files=" + listNames(dst.shardDir()) + " " + dst.dump()
	case "dump":
		return r.src.dump()
	case "bigcase":
		if len(t) != 3 || (t[2] != "restore" && t[2] != "import") {
			return "bad-op"
		}
		n := int(h.Atoi(t[1]))
		if n < 1 || n > 50000 {
			return "bad-op"
		}
		return bigCase(n, t[2] == "import")
	}
	return "bad-op"
}

// ---------------------------------------------------------------- the many-keys case
//
// Engine.overlay rebuilds the series index and the field schema of the restored shard
// from the keys of the restored TSM files in batches (10000 keys).  bigCase writes n float
// series of measurement `cpu` plus four later-sorting measurements with an integer, a
// string, a boolean and a float field in ONE batch into a fresh shard, snapshots, backs it
// up, restores / imports the archive into an empty shard and answers what both shards
// read: how many cpu series return their point, the late keys read through the cursor
// their field schema selects, and the field schema itself.

var lateFields = []struct {
	m, f string
	v    interface{}
}{{"mem", "used", int64(42)}, {"net", "name", "eth0"}, {"sys", "up", true}, {"zzz", "v", 1.5}}

func bigObserve(st *store, n int) string {
	sh := st.st.Shard(1)
	if sh == nil {
		return "err:noshard"
	}
	ctx := context.Background()
	readOne := func(name string, tags models.Tags, field string) string {
		ci, err := sh.CreateCursorIterator(ctx)
		if err != nil {
			return "err"
		}
		cur, err := ci.Next(ctx, &cursors.CursorRequest{Name: []byte(name), Tags: tags, Field: field, Ascending: true,
			StartTime: models.MinNanoTime, EndTime: models.MaxNanoTime})
		if err != nil {
			return "err"
		}
		if cur == nil {
			return "none"
		}
		defer cur.Close()
		var sb strings.Builder
		switch c := cur.(type) {
		case cursors.FloatArrayCursor:
			sb.WriteString("f")
			for a := c.Next(); a.Len() > 0; a = c.Next() {
				for i := range a.Timestamps {
					fmt.Fprintf(&sb, ":%d=%s", a.Timestamps[i], strconv.FormatFloat(a.Values[i], 'g', -1, 64))
				}
			}
		case cursors.IntegerArrayCursor:
			sb.WriteString("i")
			for a := c.Next(); a.Len() > 0; a = c.Next() {
				for i := range a.Timestamps {
					fmt.Fprintf(&sb, ":%d=%d", a.Timestamps[i], a.Values[i])
				}
			}
		case cursors.UnsignedArrayCursor:
			sb.WriteString("u")
			for a := c.Next(); a.Len() > 0; a = c.Next() {
				for i := range a.Timestamps {
					fmt.Fprintf(&sb, ":%d=%d", a.Timestamps[i], a.Values[i])
				}
			}
		case cursors.StringArrayCursor:
			sb.WriteString("s")
			for a := c.Next(); a.Len() > 0; a = c.Next() {
				for i := range a.Timestamps {
					fmt.Fprintf(&sb, ":%d=%s", a.Timestamps[i], h.HexS(a.Values[i]))
				}
			}
		case cursors.BooleanArrayCursor:
			sb.WriteString("b")
			for a := c.Next(); a.Len() > 0; a = c.Next() {
				for i := range a.Timestamps {
					fmt.Fprintf(&sb, ":%d=%s", a.Timestamps[i], h.B(a.Values[i]))
				}
			}
		default:
			return "err:cursor-type"
		}
		return sb.String()
	}
	ok := 0
	for i := 0; i < n; i++ {
		want := "f:10=" + strconv.FormatFloat(float64(i)+0.5, 'g', -1, 64)
		if readOne("cpu", models.NewTags(map[string]string{"h": fmt.Sprintf("%05d", i)}), "value") == want {
			ok++
		}
	}
	parts := []string{fmt.Sprintf("cpu=%d/%d", ok, n)}
	for _, lf := range lateFields {
		parts = append(parts, lf.m+"."+lf.f+"="+readOne(lf.m, models.NewTags(map[string]string{"h": "a"}), lf.f))
	}
	var schema []string
	for _, mf := range append([]struct {
		m, f string
		v    interface{}
	}{{"cpu", "value", nil}}, lateFields...) {
		typ := "-"
		if fs := sh.MeasurementFields([]byte(mf.m)); fs != nil {
			if f := fs.Field(mf.f); f != nil {
				typ = f.Type.String()
			}
		}
		schema = append(schema, mf.m+"."+mf.f+":"+typ)
	}
	return strings.Join(parts, ";") + ";schema=" + strings.Join(schema, ",")
}

func bigCase(n int, imp bool) string {
	src, err := openStore()
	if err != nil {
		return "harness-error"
	}
	defer src.close()
	ctx := context.Background()
	pts := make([]models.Point, 0, n+len(lateFields))
	for i := 0; i < n; i++ {
		p, err := models.NewPoint("cpu", models.NewTags(map[string]string{"h": fmt.Sprintf("%05d", i)}),
			models.Fields{"value": float64(i) + 0.5}, time.Unix(0, 10))
		if err != nil {
			return "harness-error"
		}
		pts = append(pts, p)
	}
	for _, lf := range lateFields {
		p, err := models.NewPoint(lf.m, models.NewTags(map[string]string{"h": "a"}), models.Fields{lf.f: lf.v}, time.Unix(0, 10))
		if err != nil {
			return "harness-error"
		}
		pts = append(pts, p)
	}
	if err := src.st.WriteToShard(ctx, 1, pts); err != nil {
		return "src=err:write dst=-"
	}
	var buf bytes.Buffer
	if err := src.st.BackupShard(1, time.Time{}, &buf); err != nil { // flushes the cache first
		return "src=err:backup dst=-"
	}
	dst, err := openStore()
	if err != nil {
		return "harness-error"
	}
	defer dst.close()
	if imp {
		err = dst.st.ImportShard(1, bytes.NewReader(buf.Bytes()))
	} else {
		err = dst.st.RestoreShard(ctx, 1, bytes.NewReader(buf.Bytes()))
	}
	if err != nil {
		return "src=" + bigObserve(src, n) + " dst=err:" + errEnum(err)
	}
	return "src=" + bigObserve(src, n) + " dst=" + bigObserve(dst, n)
}

// overlayBatch reads the key-batch size of Engine.overlay from the current source
// (`keys := make([][]byte, 0, N)`), so that the many-keys case follows it.
func overlayBatch() int {
	repo := os.Getenv("VERIF_REPO")
	if repo == "" {
		repo = "/repo"
	}
	fset := token.NewFileSet()
	f, err := parser.ParseFile(fset, filepath.Join(repo, "tsdb", "engine", "tsm1", "engine.go"), nil, 0)
	if err != nil {
		return 10000
	}
	n := 10000
	for _, d := range f.Decls {
		fd, ok := d.(*ast.FuncDecl)
		if !ok || fd.Name.Name != "overlay" || fd.Body == nil {
			continue
		}
		ast.Inspect(fd.Body, func(x ast.Node) bool {
			as, ok := x.(*ast.AssignStmt)
			if !ok || len(as.Lhs) != 1 || len(as.Rhs) != 1 {
				return true
			}
			if id, ok := as.Lhs[0].(*ast.Ident); !ok || id.Name != "keys" {
				return true
			}
			c, ok := as.Rhs[0].(*ast.CallExpr)
			if !ok || len(c.Args) != 3 {
				return true
			}
			if fn, ok := c.Fun.(*ast.Ident); !ok || fn.Name != "make" {
				return true
			}
			if lit, ok := c.Args[2].(*ast.BasicLit); ok {
				if v, err := strconv.Atoi(lit.Value); err == nil && v > 0 && v <= 40000 {
					n = v
				}
			}
			return true
		})
	}
	return n
}

func listNames(dir string) string {
	ents, err := os.ReadDir(dir)
	if err != nil {
		return "err"
	}
	var out []string
	for _, e := range ents {
		n := e.Name()
		if e.IsDir() || n == "fields.idx" {
			continue
		}
		out = append(out, shortName(n))
	}
	return h.Join(out)
}

// ---------------------------------------------------------------- generator

// One generated case is a history (writes / deletes / snapshots / compactions /
// explicit mtimes) on the source shard interleaved with backups and exports,
// each followed by restores / imports into fresh shards.
//
// Kinds:
//
//	small  : few points per series from a 0..40 time domain, overlapping
//	         rewrites, deletes, compactions, incremental chains;
//	export : histories WITHOUT deletes hitting files (Export fails on any
//	         tombstone), export ranges around block and file bounds;
//	big    : one or two series with > 1000 points (several blocks per key and
//	         file), no compaction (block bounds after compaction are C04's
//	         business), exports straddling block bounds.
func gen(r *h.Rand, tier string, emit func([]string)) {
	n := 90
	if tier == "thorough" {
		n = 1000
	}
	for i := 0; i < n; i++ {
		switch {
		case i%13 == 12:
			emit(genBig(r))
		case i%3 == 1:
			emit(genExport(r))
		default:
			emit(genSmall(r))
		}
	}
	// files and `since` inside one wall-clock second: file at S+0.1 s, since S+0.2 s, file at
	// S+0.7 s; since exactly an mtime, and one nanosecond either side
	emit([]string{"w 0 1 1 5 10", "snap", "age 100100000000", "w 1 1 1 5 20", "snap", "age 100700000000",
		"backup f -", "backup i 100200000000", "restore f,i", "backup e 100700000000", "backup m 100699999999",
		"backup p 100700000001", "d 0 2 3", "age 100900000000", "backup t 100800000000", "backup u 100900000000"})
	// more keys than one index batch of Engine.overlay, with differently typed fields past
	// the first batch: restore / import must rebuild the field schema key by key
	nb := overlayBatch()
	emit([]string{fmt.Sprintf("bigcase %d restore", nb+50)})
	if tier == "thorough" {
		emit([]string{fmt.Sprintf("bigcase %d import", nb+50)})
		emit([]string{fmt.Sprintf("bigcase %d restore", nb+1)})
		emit([]string{fmt.Sprintf("bigcase %d restore", 2*nb+3)})
	}
	// a malformed stream: every line must be answered bad-op / no-archive
	emit([]string{"w 9 1 1 3 0", "w 0 1 1 0 0", "d 7 1 2", "age -1", "restore zz", "import zz", "frob", "w 0 1 1", "backup a,b -", "dump"})
}

func ri(r *h.Rand, lo, hi int64) string { return strconv.FormatInt(r.Range(lo, hi), 10) }

func genWrite(r *h.Rand, maxK int) string {
	k := r.Intn(maxK)
	t0 := r.Range(0, 30)
	step := r.Range(0, 3)
	if r.Chance(0.7) {
		step = 1
	}
	cnt := r.Range(1, 8)
	return fmt.Sprintf("w %d %d %d %d %d", k, t0, step, cnt, r.Range(0, 999))
}

func genDelete(r *h.Rand, maxK int) string {
	var ks []int64
	for k := 0; k < maxK; k++ {
		if r.Chance(0.4) {
			ks = append(ks, int64(k))
		}
	}
	if len(ks) == 0 {
		ks = []int64{int64(r.Intn(maxK))}
	}
	lo := r.Range(-2, 35)
	hi := lo + r.Range(0, 12)
	if r.Chance(0.15) {
		lo, hi = -5, 60
	}
	return fmt.Sprintf("d %s %d %d", h.Ints(ks), lo, hi)
}

func genSmall(r *h.Rand) []string {
	var ops []string
	maxK := 2 + r.Intn(3)
	ids := 0
	// explicit mtimes / `since` values in nanoseconds: sub-second steps, so that files and
	// `since` share a wall-clock second (time.Time.After is a nanosecond comparison)
	clock := int64(100_000_000_000) + r.Range(0, 3)*250_000_000
	var fulls, incrs []string
	steps := 6 + r.Intn(14)
	for i := 0; i < steps; i++ {
		x := r.Intn(100)
		switch {
		case x < 30:
			ops = append(ops, genWrite(r, maxK))
		case x < 42:
			ops = append(ops, genDelete(r, maxK))
		case x < 55:
			ops = append(ops, "snap")
		case x < 62:
			ops = append(ops, "compact")
		case x < 72:
			clock += h.Pick(r, []int64{0, 1, 100_000_000, 300_000_000, 500_000_000, 999_999_999, 1_000_000_000})
			ops = append(ops, fmt.Sprintf("age %d", clock))
		case x < 84:
			id := fmt.Sprintf("b%d", ids)
			ids++
			ops = append(ops, "backup "+id+" -")
			fulls = append(fulls, id)
			if r.Chance(0.8) {
				ops = append(ops, "restore "+id)
			}
			if r.Chance(0.3) {
				ops = append(ops, "import "+id)
			}
		case x < 94:
			id := fmt.Sprintf("i%d", ids)
			ids++
			since := clock + h.Pick(r, []int64{-1_000_000_001, -600_000_000, -300_000_000, -100_000_000, -1, 0, 1, 200_000_000})
			ops = append(ops, fmt.Sprintf("backup %s %d", id, since))
			incrs = append(incrs, id)
			if len(fulls) > 0 && r.Chance(0.8) {
				ops = append(ops, "restore "+fulls[len(fulls)-1]+","+id)
			} else if r.Chance(0.5) {
				ops = append(ops, "restore "+id)
			}
		default:
			ops = append(ops, "dump")
		}
	}
	// always end with a judged full backup + restore
	id := fmt.Sprintf("b%d", ids)
	ops = append(ops, "backup "+id+" -", "restore "+id)
	return ops
}

func genExport(r *h.Rand) []string {
	var ops []string
	maxK := 1 + r.Intn(3)
	ids := 0
	steps := 4 + r.Intn(10)
	withDeletes := r.Chance(0.2)
	for i := 0; i < steps; i++ {
		x := r.Intn(100)
		switch {
		case x < 40:
			ops = append(ops, genWrite(r, maxK))
		case x < 60:
			ops = append(ops, "snap")
		case x < 66:
			ops = append(ops, "compact")
		case x < 72 && withDeletes:
			ops = append(ops, genDelete(r, maxK))
		default:
			id := fmt.Sprintf("e%d", ids)
			ids++
			a := r.Range(-3, 36)
			e := a + r.Range(0, 15)
			if r.Chance(0.1) {
				a, e = -10, 100
			}
			ops = append(ops, fmt.Sprintf("export %s %d %d", id, a, e), "import "+id)
		}
	}
	id := fmt.Sprintf("e%d", ids)
	a := r.Range(0, 30)
	ops = append(ops, fmt.Sprintf("export %s %d %d", id, a, a+r.Range(0, 10)), "import "+id)
	return ops
}

func genBig(r *h.Rand) []string {
	var ops []string
	n := r.Range(1001, 2600)
	ops = append(ops, fmt.Sprintf("w 0 %d 1 %d %d", r.Range(0, 5), n, r.Range(0, 9)))
	if r.Bool() {
		ops = append(ops, fmt.Sprintf("w 1 %d 2 %d 7", r.Range(0, 50), r.Range(1, 1500)))
	}
	ops = append(ops, "snap")
	if r.Bool() {
		ops = append(ops, fmt.Sprintf("w 0 %d 1 %d 5", r.Range(900, 1100), r.Range(1, 300)), "snap")
	}
	for i := 0; i < 3; i++ {
		a := h.Pick(r, []int64{1, 990, 999, 1000, 1001, 1002, 1999, 2000, 2001, 2500}) + r.Range(-1, 1)
		e := a + h.Pick(r, []int64{0, 1, 5, 1000, 1500})
		id := fmt.Sprintf("e%d", i)
		ops = append(ops, fmt.Sprintf("export %s %d %d", id, a, e), "import "+id)
	}
	ops = append(ops, "backup b -", "restore b", "age 100100000000", fmt.Sprintf("w 0 3000 1 %d 1", r.Range(1, 20)), "backup i 100100000000", "restore b,i")
	return ops
}

func main() {
	h.Main(h.Harness{Gen: gen, NewCase: newCase, OpTimeout: 60 * time.Second})
}
