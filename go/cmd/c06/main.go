// Harness for C06: real tsm1.FileStore over generated TSM files, real
// FileStore.KeyCursor + KeyCursor.Read*Block / Read*ArrayBlock / Next for all
// five value types, tombstones through TSMReader.DeleteRange (Tombstoner).
//
// Ops of a case (state = one file layout):
//
//	L <type f|i|u|b|s> <mode 0|1> <decoy 0..3> <file>/<file>/...
//	    file  = <block>;<block>...[!<min>:<max>;<min>:<max>...]   ("-" = key absent)
//	    block = comma separated ascending timestamps
//	    mode 0: DeleteRange on the FileStore's own readers after Open
//	    mode 1: DeleteRange on a stand-alone TSMReader before the FileStore is opened
//	            (tombstone file persisted, re-read by FileStore.Open)
//	    answer: per file `<number of index entries of the key>|<TombstoneRange(key), sorted, distinct>`
//	K <variant s|a> <dir a|d> <t> <order>
//	    order = the post-sort order of KeyCursor.seeks as `file.block,...` — an
//	    observation of the REAL sort.Sort(ascLocations/descLocations), taken by the
//	    generator (which runs the real code) because the Lean model does not port
//	    pdqsort; it is observed again here and echoed in the answer.
//	    answer: `<order> <block>|<block>...`  block = `ts:payload,...`; the blocks are what
//	    Read*Block returned, in call order, until the first empty one.
//	V <x|i|m> <a> <lo> <hi> | V m <a> <b>     Values.Exclude / Include / Merge on sorted inputs
//	    a, b = `ts:payload,...`
//
// The payload of a point is the index of the file it was written to (for
// booleans: its parity), so "newest file wins" is visible in the answer.
package main

import (
	"context"
	"fmt"
	"math"
	"os"
	"path/filepath"
	"runtime"
	"runtime/pprof"
	"sort"
	"strconv"
	"strings"
	"sync"

	"github.com/influxdata/influxdb/v2/tsdb"
	"github.com/influxdata/influxdb/v2/tsdb/engine/tsm1"
	"verif/harness/h"
)

const mainKey = "cpu,host=A#!~#value"

type fileSpec struct {
	blocks  [][]int64
	deletes [][2]int64
}

type layout struct {
	typ   string
	mode  int
	decoy int
	files []fileSpec
}

func parseFile(s string) fileSpec {
	var f fileSpec
	if s == "-" {
		return f
	}
	parts := strings.SplitN(s, "!", 2)
	if parts[0] != "" && parts[0] != "-" {
		for _, b := range strings.Split(parts[0], ";") {
			f.blocks = append(f.blocks, h.ParseInts(b))
		}
	}
	if len(parts) == 2 {
		for _, d := range strings.Split(parts[1], ";") {
			mm := strings.SplitN(d, ":", 2)
			if len(mm) != 2 {
				panic("bad delete " + d)
			}
			f.deletes = append(f.deletes, [2]int64{h.Atoi(mm[0]), h.Atoi(mm[1])})
		}
	}
	return f
}

func (f fileSpec) String() string {
	if len(f.blocks) == 0 && len(f.deletes) == 0 {
		return "-"
	}
	var bs []string
	for _, b := range f.blocks {
		bs = append(bs, h.Ints(b))
	}
	s := strings.Join(bs, ";")
	if s == "" {
		s = "-"
	}
	if len(f.deletes) > 0 {
		var ds []string
		for _, d := range f.deletes {
			ds = append(ds, fmt.Sprintf("%d:%d", d[0], d[1]))
		}
		s += "!" + strings.Join(ds, ";")
	}
	return s
}

func (l layout) String() string {
	var fs []string
	for _, f := range l.files {
		fs = append(fs, f.String())
	}
	return fmt.Sprintf("L %s %d %d %s", l.typ, l.mode, l.decoy, strings.Join(fs, "/"))
}

func parseLayout(t []string) (layout, bool) {
	var l layout
	if len(t) != 5 || t[0] != "L" || len(t[1]) != 1 || !strings.Contains("fiubs", t[1]) {
		return l, false
	}
	l.typ = t[1]
	m, err1 := strconv.Atoi(t[2])
	d, err2 := strconv.Atoi(t[3])
	if err1 != nil || err2 != nil || m < 0 || m > 1 || d < 0 || d > 3 {
		return l, false
	}
	l.mode, l.decoy = m, d
	for _, fs := range strings.Split(t[4], "/") {
		l.files = append(l.files, parseFile(fs))
	}
	return l, true
}

func mkValue(typ string, ts int64, p int) tsm1.Value {
	switch typ {
	case "f":
		return tsm1.NewValue(ts, float64(p)+0.5)
	case "i":
		return tsm1.NewValue(ts, int64(p))
	case "u":
		return tsm1.NewValue(ts, uint64(p))
	case "b":
		return tsm1.NewValue(ts, p%2 == 1)
	default:
		return tsm1.NewValue(ts, "s"+strconv.Itoa(p))
	}
}

// store is one opened layout.
type store struct {
	dir   string
	fs    *tsm1.FileStore
	lay   layout
	paths []string
}

func (s *store) close() {
	if s.fs != nil {
		s.fs.Close()
	}
	if s.dir != "" {
		os.RemoveAll(s.dir)
	}
}

func writeFile(path string, l layout, idx int) error {
	f, err := os.Create(path)
	if err != nil {
		return err
	}
	w, err := tsm1.NewTSMWriter(f)
	if err != nil {
		return err
	}
	fsp := l.files[idx]
	// decoy keys around the key under test: bit 0 = one before, bit 1 = one after;
	// a file that does not hold the key always gets the first decoy
	decoy := l.decoy
	if len(fsp.blocks) == 0 {
		decoy |= 1
	}
	if decoy&1 != 0 {
		if err := w.Write([]byte("aaa#!~#v"), tsm1.Values{mkValue(l.typ, -1000-int64(idx), 7), mkValue(l.typ, 1000+int64(idx), 7)}); err != nil {
			return err
		}
	}
	for _, b := range fsp.blocks {
		vs := make(tsm1.Values, 0, len(b))
		for _, ts := range b {
			vs = append(vs, mkValue(l.typ, ts, idx))
		}
		if err := w.Write([]byte(mainKey), vs); err != nil {
			return err
		}
	}
	if decoy&2 != 0 {
		if err := w.Write([]byte("zzz#!~#v"), tsm1.Values{mkValue(l.typ, 3, 7)}); err != nil {
			return err
		}
	}
	if err := w.WriteIndex(); err != nil {
		return err
	}
	return w.Close()
}

// tmpBase: $TMPDIR when set, else a memory file system when there is one (the
// real TSMWriter and Tombstoner fsync; on disk that dominates the run), else the default.
func tmpBase() string {
	if os.Getenv("TMPDIR") != "" {
		return ""
	}
	if st, err := os.Stat("/dev/shm"); err == nil && st.IsDir() {
		return "/dev/shm"
	}
	return ""
}

func openStore(l layout) (*store, error) {
	dir, err := os.MkdirTemp(tmpBase(), "verif-c06-")
	if err != nil {
		return nil, err
	}
	s := &store{dir: dir, lay: l}
	for i := range l.files {
		// generation i+1; the sequence number varies so that path order is not just "same suffix"
		p := filepath.Join(dir, tsm1.DefaultFormatFileName(i+1, 1+(i*7)%3)+".tsm")
		if err := writeFile(p, l, i); err != nil {
			s.close()
			return nil, err
		}
		s.paths = append(s.paths, p)
	}
	if l.mode == 1 {
		for i, fsp := range l.files {
			if len(fsp.deletes) == 0 {
				continue
			}
			f, err := os.Open(s.paths[i])
			if err != nil {
				s.close()
				return nil, err
			}
			r, err := tsm1.NewTSMReader(f)
			if err != nil {
				s.close()
				return nil, err
			}
			for _, d := range fsp.deletes {
				if err := r.DeleteRange([][]byte{[]byte(mainKey)}, d[0], d[1]); err != nil {
					r.Close()
					s.close()
					return nil, err
				}
			}
			if err := r.Close(); err != nil {
				s.close()
				return nil, err
			}
		}
	}
	s.fs = tsm1.NewFileStore(dir, tsdb.EngineTags{})
	if err := s.fs.Open(context.Background()); err != nil {
		s.close()
		return nil, err
	}
	files := s.fs.Files()
	if len(files) != len(l.files) {
		s.close()
		return nil, fmt.Errorf("file store holds %d files, want %d", len(files), len(l.files))
	}
	for i, tf := range files {
		if tf.Path() != s.paths[i] {
			s.close()
			return nil, fmt.Errorf("file order: %s at %d", tf.Path(), i)
		}
	}
	if l.mode == 0 {
		for i, fsp := range l.files {
			for _, d := range fsp.deletes {
				if err := files[i].DeleteRange([][]byte{[]byte(mainKey)}, d[0], d[1]); err != nil {
					s.close()
					return nil, err
				}
			}
		}
	}
	return s, nil
}

// effective state of every file as the KeyCursor will see it
func (s *store) describe() string {
	var out []string
	for _, tf := range s.fs.Files() {
		n := len(tf.Entries([]byte(mainKey)))
		trs := tf.TombstoneRange([]byte(mainKey))
		seen := map[[2]int64]bool{}
		var ds [][2]int64
		for _, tr := range trs {
			k := [2]int64{tr.Min, tr.Max}
			if !seen[k] {
				seen[k] = true
				ds = append(ds, k)
			}
		}
		sort.Slice(ds, func(i, j int) bool {
			if ds[i][0] != ds[j][0] {
				return ds[i][0] < ds[j][0]
			}
			return ds[i][1] < ds[j][1]
		})
		var ss []string
		for _, d := range ds {
			ss = append(ss, fmt.Sprintf("%d:%d", d[0], d[1]))
		}
		out = append(out, fmt.Sprintf("%d|%s", n, h.Join(ss)))
	}
	return strings.Join(out, "/")
}

func (s *store) order(kc *tsm1.KeyCursor) string {
	var ids []string
	for _, l := range kc.VerifC06Seeks() {
		fi := -1
		for i, p := range s.paths {
			if p == l.Path {
				fi = i
			}
		}
		bi := -1
		if fi >= 0 {
			for j, b := range s.lay.files[fi].blocks {
				if len(b) > 0 && b[0] == l.MinTime && b[len(b)-1] == l.MaxTime {
					bi = j
				}
			}
		}
		ids = append(ids, fmt.Sprintf("%d.%d", fi, bi))
	}
	return h.Join(ids)
}

func payload(typ string, v interface{}) string {
	switch x := v.(type) {
	case float64:
		if x-0.5 != math.Trunc(x-0.5) {
			return "?" + strconv.FormatFloat(x, 'g', -1, 64)
		}
		return strconv.Itoa(int(x - 0.5))
	case int64:
		return strconv.FormatInt(x, 10)
	case uint64:
		return strconv.FormatUint(x, 10)
	case bool:
		return h.B(x)
	case string:
		if strings.HasPrefix(x, "s") {
			return x[1:]
		}
		return "?" + x
	}
	return "?"
}

const maxBlocks = 400

// readAll drives the cursor the way the engine's cursors do (iterator.gen.go,
// array_cursor.gen.go): ReadBlock; while non-empty { Next; ReadBlock }.
func readAll(kc *tsm1.KeyCursor, typ, variant string) (string, error) {
	var blocks []string
	emit := func(n int, ts func(i int) int64, val func(i int) interface{}) {
		ps := make([]string, n)
		for i := 0; i < n; i++ {
			ps[i] = strconv.FormatInt(ts(i), 10) + ":" + payload(typ, val(i))
		}
		blocks = append(blocks, strings.Join(ps, ","))
	}
	var fbuf []tsm1.FloatValue
	var ibuf []tsm1.IntegerValue
	var ubuf []tsm1.UnsignedValue
	var bbuf []tsm1.BooleanValue
	var sbuf []tsm1.StringValue
	fa, ia, ua, ba, sa := &tsdb.FloatArray{}, &tsdb.IntegerArray{}, &tsdb.UnsignedArray{}, &tsdb.BooleanArray{}, &tsdb.StringArray{}
	for k := 0; ; k++ {
		if k > maxBlocks {
			return "", fmt.Errorf("nonterminating")
		}
		n := 0
		var err error
		switch typ + variant {
		case "fs":
			var v []tsm1.FloatValue
			v, err = kc.ReadFloatBlock(&fbuf)
			if n = len(v); n > 0 {
				emit(n, func(i int) int64 { return v[i].UnixNano() }, func(i int) interface{} { return v[i].Value() })
			}
		case "is":
			var v []tsm1.IntegerValue
			v, err = kc.ReadIntegerBlock(&ibuf)
			if n = len(v); n > 0 {
				emit(n, func(i int) int64 { return v[i].UnixNano() }, func(i int) interface{} { return v[i].Value() })
			}
		case "us":
			var v []tsm1.UnsignedValue
			v, err = kc.ReadUnsignedBlock(&ubuf)
			if n = len(v); n > 0 {
				emit(n, func(i int) int64 { return v[i].UnixNano() }, func(i int) interface{} { return v[i].Value() })
			}
		case "bs":
			var v []tsm1.BooleanValue
			v, err = kc.ReadBooleanBlock(&bbuf)
			if n = len(v); n > 0 {
				emit(n, func(i int) int64 { return v[i].UnixNano() }, func(i int) interface{} { return v[i].Value() })
			}
		case "ss":
			var v []tsm1.StringValue
			v, err = kc.ReadStringBlock(&sbuf)
			if n = len(v); n > 0 {
				emit(n, func(i int) int64 { return v[i].UnixNano() }, func(i int) interface{} { return v[i].Value() })
			}
		case "fa":
			var v *tsdb.FloatArray
			v, err = kc.ReadFloatArrayBlock(fa)
			if err == nil {
				if n = v.Len(); n > 0 {
					if len(v.Values) != n {
						return "", fmt.Errorf("array-length-mismatch")
					}
					emit(n, func(i int) int64 { return v.Timestamps[i] }, func(i int) interface{} { return v.Values[i] })
				}
			}
		case "ia":
			var v *tsdb.IntegerArray
			v, err = kc.ReadIntegerArrayBlock(ia)
			if err == nil {
				if n = v.Len(); n > 0 {
					if len(v.Values) != n {
						return "", fmt.Errorf("array-length-mismatch")
					}
					emit(n, func(i int) int64 { return v.Timestamps[i] }, func(i int) interface{} { return v.Values[i] })
				}
			}
		case "ua":
			var v *tsdb.UnsignedArray
			v, err = kc.ReadUnsignedArrayBlock(ua)
			if err == nil {
				if n = v.Len(); n > 0 {
					if len(v.Values) != n {
						return "", fmt.Errorf("array-length-mismatch")
					}
					emit(n, func(i int) int64 { return v.Timestamps[i] }, func(i int) interface{} { return v.Values[i] })
				}
			}
		case "ba":
			var v *tsdb.BooleanArray
			v, err = kc.ReadBooleanArrayBlock(ba)
			if err == nil {
				if n = v.Len(); n > 0 {
					if len(v.Values) != n {
						return "", fmt.Errorf("array-length-mismatch")
					}
					emit(n, func(i int) int64 { return v.Timestamps[i] }, func(i int) interface{} { return v.Values[i] })
				}
			}
		case "sa":
			var v *tsdb.StringArray
			v, err = kc.ReadStringArrayBlock(sa)
			if err == nil {
				if n = v.Len(); n > 0 {
					if len(v.Values) != n {
						return "", fmt.Errorf("array-length-mismatch")
					}
					emit(n, func(i int) int64 { return v.Timestamps[i] }, func(i int) interface{} { return v.Values[i] })
				}
			}
		default:
			return "", fmt.Errorf("bad-variant")
		}
		if err != nil {
			return "", fmt.Errorf("read-error")
		}
		if n == 0 {
			break
		}
		kc.Next()
	}
	if len(blocks) == 0 {
		return "-", nil
	}
	return strings.Join(blocks, "|"), nil
}

// ---------------------------------------------------------------- Values ops

func parsePts(s string) ([]int64, []int) {
	if s == "-" {
		return nil, nil
	}
	var ts []int64
	var ps []int
	for _, p := range strings.Split(s, ",") {
		kv := strings.SplitN(p, ":", 2)
		if len(kv) != 2 {
			panic("bad point " + p)
		}
		ts = append(ts, h.Atoi(kv[0]))
		ps = append(ps, int(h.Atoi(kv[1])))
	}
	return ts, ps
}

func mkInts(s string) tsm1.IntegerValues {
	ts, ps := parsePts(s)
	out := make(tsm1.IntegerValues, len(ts))
	for i := range ts {
		out[i] = tsm1.NewIntegerValue(ts[i], int64(ps[i])).(tsm1.IntegerValue)
	}
	return out
}

func showInts(v tsm1.IntegerValues) string {
	if len(v) == 0 {
		return "-"
	}
	ps := make([]string, len(v))
	for i := range v {
		ps[i] = fmt.Sprintf("%d:%d", v[i].UnixNano(), v[i].RawValue())
	}
	return strings.Join(ps, ",")
}

func mkArr(s string) *tsdb.IntegerArray {
	ts, ps := parsePts(s)
	a := &tsdb.IntegerArray{}
	for i := range ts {
		a.Timestamps = append(a.Timestamps, ts[i])
		a.Values = append(a.Values, int64(ps[i]))
	}
	return a
}

func showArr(a *tsdb.IntegerArray) string {
	if a.Len() == 0 {
		return "-"
	}
	if len(a.Values) != len(a.Timestamps) {
		return "length-mismatch"
	}
	ps := make([]string, a.Len())
	for i := range a.Timestamps {
		ps[i] = fmt.Sprintf("%d:%d", a.Timestamps[i], a.Values[i])
	}
	return strings.Join(ps, ",")
}

// V op: both the tsm1.IntegerValues and the tsdb.IntegerArray implementation
// must give the same answer; it is printed once.
func valuesOp(t []string) string {
	if len(t) < 2 {
		return "bad-op"
	}
	var r1, r2 string
	switch t[1] {
	case "x", "i":
		if len(t) != 5 {
			return "bad-op"
		}
		lo, hi := h.Atoi(t[3]), h.Atoi(t[4])
		v, a := mkInts(t[2]), mkArr(t[2])
		if t[1] == "x" {
			r1 = showInts(v.Exclude(lo, hi))
			a.Exclude(lo, hi)
		} else {
			r1 = showInts(v.Include(lo, hi))
			a.Include(lo, hi)
		}
		r2 = showArr(a)
	case "m":
		if len(t) != 4 {
			return "bad-op"
		}
		r1 = showInts(mkInts(t[2]).Merge(mkInts(t[3])))
		a := mkArr(t[2])
		a.Merge(mkArr(t[3]))
		r2 = showArr(a)
	default:
		return "bad-op"
	}
	if r1 != r2 {
		return "values/array-differ:" + r1 + "/" + r2
	}
	return r1
}

// ---------------------------------------------------------------- case runner

type runner struct {
	s *store
}

func (r *runner) Close() {
	if r.s != nil {
		r.s.close()
		r.s = nil
	}
}

func (r *runner) Op(t []string) string {
	if len(t) == 0 {
		return "bad-op"
	}
	switch t[0] {
	case "L":
		l, ok := parseLayout(t)
		if !ok {
			return "bad-op"
		}
		r.Close()
		s, err := openStore(l)
		if err != nil {
			return "open-error"
		}
		r.s = s
		return s.describe()
	case "K":
		if len(t) != 5 || (t[1] != "s" && t[1] != "a") || (t[2] != "a" && t[2] != "d") {
			return "bad-op"
		}
		if r.s == nil {
			return "bad-op"
		}
		ts, err := strconv.ParseInt(t[3], 10, 64)
		if err != nil {
			return "bad-op"
		}
		kc := r.s.fs.KeyCursor(context.Background(), []byte(mainKey), ts, t[2] == "a")
		defer kc.Close()
		ord := r.s.order(kc)
		out, err := readAll(kc, r.s.lay.typ, t[1])
		if err != nil {
			return ord + " " + err.Error()
		}
		return ord + " " + out
	case "V":
		return valuesOp(t)
	}
	return "bad-op"
}

// ---------------------------------------------------------------- generator

// sat adds without wrapping.
func sat(a, d int64) int64 {
	s := a + d
	if d > 0 && s < a {
		return math.MaxInt64
	}
	if d < 0 && s > a {
		return math.MinInt64
	}
	return s
}

func genFile(r *h.Rand, base int64, dom int, maxBlocks int, dense float64) fileSpec {
	var f fileSpec
	var ts []int64
	for i := 0; i < dom; i++ {
		if r.Chance(dense) {
			ts = append(ts, base+int64(i))
		}
	}
	for len(ts) > 0 && len(f.blocks) < maxBlocks {
		n := 1 + r.Intn(3)
		if r.Chance(0.2) {
			n = 1 + r.Intn(len(ts))
		}
		if n > len(ts) || len(f.blocks) == maxBlocks-1 {
			n = len(ts)
		}
		f.blocks = append(f.blocks, ts[:n])
		ts = ts[n:]
	}
	return f
}

func genDeletes(r *h.Rand, base int64, dom int) [][2]int64 {
	var ds [][2]int64
	n := 0
	switch {
	case r.Chance(0.45):
		n = 0
	case r.Chance(0.6):
		n = 1
	default:
		n = 2 + r.Intn(2)
	}
	for i := 0; i < n; i++ {
		lo := sat(base, r.Range(-1, int64(dom)))
		hi := sat(lo, r.Range(0, 3))
		if r.Chance(0.1) {
			hi = sat(lo, r.Range(0, int64(dom)))
		}
		if r.Chance(0.03) {
			lo, hi = math.MinInt64, math.MaxInt64
		}
		if r.Chance(0.03) {
			lo = math.MinInt64
		}
		if r.Chance(0.03) {
			hi = math.MaxInt64
		}
		if i > 0 && r.Chance(0.3) { // adjacent to the previous one: the "contiguous tombstones" path
			lo = sat(ds[i-1][1], 1)
			hi = sat(lo, r.Range(0, 2))
		}
		if hi < lo && r.Chance(0.9) {
			lo, hi = hi, lo
		}
		ds = append(ds, [2]int64{lo, hi})
	}
	return ds
}

func showPts(ts []int64, p int) string {
	if len(ts) == 0 {
		return "-"
	}
	ss := make([]string, len(ts))
	for i, t := range ts {
		ss[i] = fmt.Sprintf("%d:%d", t, p)
	}
	return strings.Join(ss, ",")
}

type kop struct {
	variant, dir string
	t            int64
}

type genCase struct {
	l    layout
	ks   []kop
	vops []string
	ops  []string
}

// orders runs the real FileStore/KeyCursor to observe the post-sort order of every K op.
func (g *genCase) fill() {
	g.ops = []string{g.l.String()}
	s, err := openStore(g.l)
	if err != nil {
		return // the executor will report it; no K ops without an order
	}
	defer s.close()
	for _, k := range g.ks {
		kc := s.fs.KeyCursor(context.Background(), []byte(mainKey), k.t, k.dir == "a")
		ord := s.order(kc)
		kc.Close()
		g.ops = append(g.ops, fmt.Sprintf("K %s %s %d %s", k.variant, k.dir, k.t, ord))
	}
	g.ops = append(g.ops, g.vops...)
}

func genOne(r *h.Rand, c int, nk int) *genCase {
	types := []string{"f", "i", "u", "b", "s"}
	g := &genCase{}
	l := &g.l
	l.typ = types[c%5]
	l.mode = r.Intn(2)
	l.decoy = r.Intn(4)
	nf := 1 + r.Intn(4)
	dom, maxB := 10, 6
	base := int64(0)
	switch {
	case r.Chance(0.25): // many locations: sort.Sort leaves insertion sort (n > 12)
		dom, maxB = 16+r.Intn(8), 8
		nf = 3 + r.Intn(2)
	case r.Chance(0.05):
		base = math.MaxInt64 - 9
	case r.Chance(0.05):
		base = math.MinInt64
	case r.Chance(0.1):
		base = -5
	}
	dense := []float64{0.3, 0.5, 0.7, 0.9}[r.Intn(4)]
	for i := 0; i < nf; i++ {
		f := genFile(r, base, dom, maxB, dense)
		if r.Chance(0.05) {
			f.blocks = nil
		}
		if len(f.blocks) > 0 {
			f.deletes = genDeletes(r, base, dom)
		}
		l.files = append(l.files, f)
	}
	for k := 0; k < nk; k++ {
		t := sat(base, r.Range(-1, int64(dom)))
		switch {
		case r.Chance(0.03):
			t = math.MinInt64
		case r.Chance(0.03):
			t = math.MaxInt64
		case r.Chance(0.02):
			t = math.MinInt64 + 1
		case r.Chance(0.02):
			t = math.MaxInt64 - 1
		}
		asc := r.Bool()
		if k == 0 { // one full scan in each direction per layout is always there
			asc = true
			t = sat(base, -1)
			if t == math.MinInt64 {
				t = math.MinInt64 + 1
			}
		}
		if k == 1 {
			asc = false
			t = sat(base, int64(dom))
			if t == math.MaxInt64 {
				t = math.MaxInt64 - 1
			}
		}
		variant := "s"
		if r.Bool() {
			variant = "a"
		}
		dir := "d"
		if asc {
			dir = "a"
		}
		g.ks = append(g.ks, kop{variant, dir, t})
	}
	// a few direct Values-algebra ops on the blocks of this layout
	if len(l.files) >= 2 && len(l.files[0].blocks) > 0 && len(l.files[1].blocks) > 0 {
		a := showPts(l.files[0].blocks[0], 0)
		b := showPts(l.files[1].blocks[r.Intn(len(l.files[1].blocks))], 1)
		lo := sat(base, r.Range(-1, int64(dom)))
		hi := sat(lo, r.Range(-1, 4))
		g.vops = append(g.vops, fmt.Sprintf("V x %s %d %d", a, lo, hi), fmt.Sprintf("V i %s %d %d", b, lo, hi),
			fmt.Sprintf("V m %s %s", a, b))
	}
	return g
}

// splits enumerates every way to write a subset of {0..dom-1} as consecutive blocks:
// each timestamp is absent (0), starts a block (1) or continues the current block (2).
func splits(dom int) []fileSpec {
	var out []fileSpec
	n := 1
	for i := 0; i < dom; i++ {
		n *= 3
	}
	for code := 0; code < n; code++ {
		var f fileSpec
		c := code
		open := false
		ok := true
		for ts := 0; ts < dom; ts++ {
			d := c % 3
			c /= 3
			switch d {
			case 0:
			case 1:
				f.blocks = append(f.blocks, []int64{int64(ts)})
				open = true
			case 2:
				if !open {
					ok = false // same layout as "starts a block": skip the duplicate
				} else {
					b := &f.blocks[len(f.blocks)-1]
					*b = append(*b, int64(ts))
				}
			}
			if !ok {
				break
			}
		}
		if ok {
			out = append(out, f)
		}
	}
	return out
}

// genExhaustive (thorough tier): every pair of files over the timestamps {0,1,2,3}, every split
// into blocks, no or one deleted range on the newer file; every seek time in -1..4, both
// directions, alternating scalar/array and value type.
func genExhaustive(emit func([]string)) {
	sp := splits(4)
	var dels [][][2]int64
	dels = append(dels, nil)
	for lo := int64(0); lo < 4; lo++ {
		for hi := lo; hi < 4; hi++ {
			dels = append(dels, [][2]int64{{lo, hi}})
		}
	}
	types := []string{"f", "i", "u", "b", "s"}
	var gs []*genCase
	flush := func() {
		var wg sync.WaitGroup
		sem := make(chan struct{}, runtime.GOMAXPROCS(0))
		for _, g := range gs {
			wg.Add(1)
			sem <- struct{}{}
			go func(g *genCase) {
				defer wg.Done()
				defer func() { <-sem }()
				defer func() {
					if e := recover(); e != nil && len(g.ops) == 0 {
						g.ops = []string{g.l.String()}
					}
				}()
				g.fill()
			}(g)
		}
		wg.Wait()
		for _, g := range gs {
			emit(g.ops)
		}
		gs = nil
	}
	n := 0
	for _, f0 := range sp {
		for _, f1 := range sp {
			for _, d := range dels {
				if len(f1.blocks) == 0 && d != nil {
					continue
				}
				g := &genCase{}
				g.l = layout{typ: types[n%5], mode: n % 2, decoy: n % 4, files: []fileSpec{f0, {blocks: f1.blocks, deletes: d}}}
				for t := int64(-1); t <= 4; t++ {
					for _, dir := range []string{"a", "d"} {
						v := "s"
						if (n+int(t))%2 == 0 {
							v = "a"
						}
						g.ks = append(g.ks, kop{v, dir, t})
					}
				}
				n++
				gs = append(gs, g)
				if len(gs) >= 256 {
					flush()
				}
			}
		}
	}
	flush()
}

func gen(r *h.Rand, tier string, emit func([]string)) {
	nLayouts, nk := 1200, 12
	if tier == "thorough" {
		nLayouts, nk = 8000, 16
	}
	const batch = 256
	for c0 := 0; c0 < nLayouts; c0 += batch {
		var gs []*genCase
		for c := c0; c < c0+batch && c < nLayouts; c++ {
			gs = append(gs, genOne(r, c, nk)) // every random choice is made here, sequentially
		}
		// observing the real sort order needs the real files: in parallel, emitted in order
		var wg sync.WaitGroup
		sem := make(chan struct{}, runtime.GOMAXPROCS(0))
		for _, g := range gs {
			wg.Add(1)
			sem <- struct{}{}
			go func(g *genCase) {
				defer wg.Done()
				defer func() { <-sem }()
				defer func() {
					if e := recover(); e != nil && len(g.ops) == 0 {
						g.ops = []string{g.l.String()}
					}
				}()
				g.fill()
			}(g)
		}
		wg.Wait()
		for _, g := range gs {
			emit(g.ops)
		}
	}
	if tier == "thorough" {
		genExhaustive(emit)
	}
	// malformed stream
	emit([]string{"L q 0 0 1,2", "K s a 1 -", "L f 2 0 1,2", "X", "V z - 0 0", "L f 0 0 1,2;3", "K s x 1 0.0,0.1", "K s a zz 0.0,0.1"})
}

var ballast []byte

func main() {
	// The real TSMWriter allocates two 1 MiB buffers per file; with a tiny live heap the
	// runtime collects and returns that memory to the OS after every few files and the
	// harness spends its time in page faults.  An untouched ballast raises the heap goal.
	if mb, _ := strconv.Atoi(os.Getenv("VERIF_C06_BALLAST_MB")); mb >= 0 {
		if mb == 0 {
			mb = 32
		}
		ballast = make([]byte, mb<<20)
	}
	if pf := os.Getenv("VERIF_C06_PPROF"); pf != "" {
		f, _ := os.Create(pf)
		pprof.StartCPUProfile(f)
		defer pprof.StopCPUProfile()
	}
	h.Main(h.Harness{Gen: gen, NewCase: func() h.CaseRunner { return &runner{} }})
}
