// Harness for C31: drives the real platform.ID text codec and the real
// snowflake generators (pkg/snowflake.Generator, snowflake.IDGenerator).
package main

import (
	"runtime"
	"sort"
	"strconv"
	"strings"
	"sync"
	"sync/atomic"
	"time"

	"github.com/influxdata/influxdb/v2/kit/platform"
	pkgsnow "github.com/influxdata/influxdb/v2/pkg/snowflake"
	"github.com/influxdata/influxdb/v2/snowflake"
	"verif/harness/h"
)

func decRes(err error, id platform.ID) string {
	switch err {
	case nil:
		return strconv.FormatUint(uint64(id), 10)
	case platform.ErrInvalidIDLength:
		return "len"
	case platform.ErrInvalidID:
		return "inv"
	}
	return "other-error"
}

func encRes(b []byte, err error) string {
	if err != nil {
		return "err"
	}
	return h.Hex(b)
}

type runner struct {
	gen   *pkgsnow.Generator
	idgen *snowflake.IDGenerator
}

func nowMS() uint64 { return uint64(time.Now().UnixNano() / 1e6) }

func u64s(xs []uint64) string {
	if len(xs) == 0 {
		return "-"
	}
	ss := make([]string, len(xs))
	for i, x := range xs {
		ss[i] = strconv.FormatUint(x, 10)
	}
	return strings.Join(ss, ",")
}

func (r *runner) Close() {}

func (r *runner) Op(t []string) string {
	switch {
	case len(t) == 2 && t[0] == "rt":
		v, err := strconv.ParseUint(t[1], 10, 64)
		if err != nil {
			return "bad-op"
		}
		b, eerr := platform.ID(v).Encode()
		if eerr != nil {
			return "err -"
		}
		var back platform.ID
		derr := back.Decode(b)
		return encRes(b, nil) + " " + decRes(derr, back)
	case len(t) == 2 && t[0] == "str":
		v, err := strconv.ParseUint(t[1], 10, 64)
		if err != nil {
			return "bad-op"
		}
		return h.HexS(platform.ID(v).String())
	case len(t) == 2 && (t[0] == "dec" || t[0] == "decs" || t[0] == "idfs" || t[0] == "utxt"):
		b, err := h.UnHex(t[1])
		if err != nil {
			return "bad-op"
		}
		var id platform.ID
		var derr error
		switch t[0] {
		case "dec":
			derr = id.Decode(b)
		case "decs":
			derr = id.DecodeFromString(string(b))
		case "utxt":
			derr = id.UnmarshalText(b)
		case "idfs":
			p, e := platform.IDFromString(string(b))
			derr = e
			if e == nil {
				id = *p
			}
		}
		if derr != nil {
			return decRes(derr, 0) + " -"
		}
		return decRes(nil, id) + " " + encRes(id.Encode())
	case len(t) == 2 && t[0] == "new":
		m, err := strconv.ParseInt(t[1], 10, 64)
		if err != nil {
			return "bad-op"
		}
		r.gen, r.idgen = nil, nil
		ok := func() (ok bool) {
			defer func() {
				if recover() != nil {
					ok = false
				}
			}()
			r.gen = pkgsnow.New(int(m))
			return true
		}()
		if !ok {
			return "panic"
		}
		r.idgen = &snowflake.IDGenerator{Generator: r.gen}
		return "ok " + strconv.Itoa(r.gen.MachineID())
	case len(t) == 2 && t[0] == "newgen":
		m, err := strconv.ParseInt(t[1], 10, 64)
		if err != nil {
			return "bad-op"
		}
		r.idgen = snowflake.NewIDGenerator(snowflake.WithMachineID(int(m)))
		r.gen = r.idgen.Generator
		return "ok " + strconv.Itoa(r.gen.MachineID())
	case len(t) == 2 && t[0] == "set":
		v, err := strconv.ParseUint(t[1], 10, 64)
		if err != nil || r.gen == nil {
			return "bad-op"
		}
		pkgsnow.VerifSetState(r.gen, v)
		return "ok"
	case len(t) == 1 && t[0] == "state":
		if r.gen == nil {
			return "bad-op"
		}
		return strconv.FormatUint(pkgsnow.VerifState(r.gen), 10)
	case len(t) == 1 && t[0] == "fresh":
		if r.gen == nil {
			return "bad-op"
		}
		t0 := nowMS()
		id := r.gen.Next()
		t1 := nowMS()
		tf := id >> 22
		if t0-pkgsnow.VerifEpoch <= tf && tf <= t1-pkgsnow.VerifEpoch {
			return "f." + strconv.FormatUint(id&0xfff, 10) + "." + strconv.FormatUint((id>>12)&0x3ff, 10)
		}
		return "raw." + strconv.FormatUint(id, 10)
	case len(t) == 2 && (t[0] == "next" || t[0] == "gid"):
		k, err := strconv.Atoi(t[1])
		if err != nil || r.gen == nil || k < 0 || k > 100000 {
			return "bad-op"
		}
		out := make([]uint64, 0, k)
		for i := 0; i < k; i++ {
			if t[0] == "next" {
				out = append(out, r.gen.Next())
			} else {
				out = append(out, uint64(r.idgen.ID()))
			}
		}
		return u64s(out)
	case len(t) == 3 && t[0] == "conc":
		n, err1 := strconv.Atoi(t[1])
		k, err2 := strconv.Atoi(t[2])
		if err1 != nil || err2 != nil || r.gen == nil || n < 1 || n > 64 || k < 0 || n*k > 200000 {
			return "bad-op"
		}
		res := make([][]uint64, n)
		var ready int32
		var wg sync.WaitGroup
		for g := 0; g < n; g++ {
			wg.Add(1)
			go func(g int) {
				defer wg.Done()
				mine := make([]uint64, 0, k)
				// spin barrier: all callers enter their loops together
				atomic.AddInt32(&ready, 1)
				for spins := 0; atomic.LoadInt32(&ready) < int32(n); spins++ {
					if spins > 1000 {
						runtime.Gosched()
					}
				}
				for i := 0; i < k; i++ {
					if g%2 == 0 {
						mine = append(mine, r.gen.Next())
					} else {
						mine = append(mine, uint64(r.idgen.ID()))
					}
				}
				res[g] = mine
			}(g)
		}
		wg.Wait()
		var all []uint64
		for _, m := range res {
			all = append(all, m...)
		}
		sort.Slice(all, func(i, j int) bool { return all[i] < all[j] })
		return u64s(all)
	}
	return "bad-op"
}

// ---------------------------------------------------------------- generators

const hexLower = "0123456789abcdef"
const hexUpper = "0123456789ABCDEF"

func interestingIDs(r *h.Rand) uint64 {
	switch r.Intn(8) {
	case 0:
		return h.Pick(r, []uint64{0, 1, 2, 9, 10, 15, 16, 171, 255, 256, 1<<32 - 1, 1 << 32, 1<<53 + 1,
			1<<63 - 1, 1 << 63, 1<<63 + 1, ^uint64(0), ^uint64(0) - 1, 0x0123456789abcdef, 0xfedcba9876543210,
			0xabcdefabcdefabcd, 0x00000000000000ab, 0xa000000000000000, 0x0a0b0c0d0e0f0102})
	case 1:
		return uint64(1) << uint(r.Intn(64))
	case 2:
		return (uint64(1) << uint(r.Intn(64))) - 1
	case 3:
		return r.Uint64() >> uint(r.Intn(64))
	default:
		return r.Uint64()
	}
}

func randString(r *h.Rand) []byte {
	enc := func(v uint64) []byte {
		b := make([]byte, 16)
		for i := 15; i >= 0; i-- {
			b[i] = hexLower[v&0xf]
			v >>= 4
		}
		return b
	}
	switch r.Intn(14) {
	case 0: // valid lower-case encoding
		return enc(interestingIDs(r))
	case 1: // upper/mixed case spelling
		b := enc(interestingIDs(r))
		for i := range b {
			if b[i] >= 'a' && r.Bool() {
				b[i] -= 32
			}
		}
		return b
	case 2: // wrong length: drop or add characters
		b := enc(interestingIDs(r))
		switch r.Intn(4) {
		case 0:
			return b[:r.Intn(16)]
		case 1:
			return b[1:]
		case 2:
			return append(b, hexLower[r.Intn(16)])
		default:
			return append([]byte("0x"), b[2:]...)
		}
	case 3: // one non-hex character in an otherwise valid string
		b := enc(interestingIDs(r))
		odd := []byte("gGzZ_ +-xX.:/@`{\x00\x7f\x80\xff\n\t")
		b[r.Intn(16)] = odd[r.Intn(len(odd))]
		return b
	case 4: // prefixes / signs / underscores at length 16
		return h.Pick(r, [][]byte{
			[]byte("0x00000000000001"), []byte("0X000000000000ab"), []byte("+000000000000001"),
			[]byte("-000000000000001"), []byte("0000_0000_0000_1"), []byte("000000000000001 "),
			[]byte(" 000000000000001"), []byte("0000000000000000"), []byte("000000000000000g"),
			[]byte("ffffffffffffffff"), []byte("FFFFFFFFFFFFFFFF"), []byte("00000000000000AB"),
			[]byte("00000000000000ab"), []byte("１２３４５"), []byte("000000000000000１"[:16]),
			[]byte(""), []byte("1"), []byte("0000000000000001\x00"), []byte("abcdefABCDEF0123"),
			[]byte("ABCDEFGHIJKLMNOP"), []byte("zzzzzzzzzzzzzzzz"), []byte("0123456789abcdeg"),
			[]byte("18446744073709551615"), []byte("1e00000000000000"), []byte("1E00000000000000")})
	case 5: // random bytes of length 16
		b := make([]byte, 16)
		for i := range b {
			b[i] = byte(r.Intn(256))
		}
		return b
	case 6: // random printable of random length
		n := r.Intn(40)
		b := make([]byte, n)
		for i := range b {
			b[i] = byte(32 + r.Intn(95))
		}
		return b
	case 7: // all upper-case spelling
		b := enc(interestingIDs(r))
		for i := range b {
			if b[i] >= 'a' {
				b[i] -= 32
			}
		}
		return b
	case 8: // random characters drawn from hex digits of both cases and near misses, length 16
		al := []byte("0123456789abcdefABCDEF" + "gG/:@`")
		b := make([]byte, 16)
		for i := range b {
			if r.Chance(0.03) {
				b[i] = al[22+r.Intn(6)]
			} else {
				b[i] = al[r.Intn(22)]
			}
		}
		return b
	default: // valid encodings dominate so that acceptance is exercised
		return enc(r.Uint64())
	}
}

func gen(r *h.Rand, tier string, emit func([]string)) {
	scale := 1
	if tier == "thorough" {
		scale = 8
	}
	// --- text codec: batches of independent ops
	for c := 0; c < 40*scale; c++ {
		var ops []string
		for i := 0; i < 250; i++ {
			switch r.Intn(10) {
			case 0, 1, 2:
				ops = append(ops, "rt "+strconv.FormatUint(interestingIDs(r), 10))
			case 3:
				ops = append(ops, "str "+strconv.FormatUint(interestingIDs(r), 10))
			default:
				op := h.Pick(r, []string{"dec", "dec", "dec", "decs", "idfs", "utxt"})
				ops = append(ops, op+" "+h.Hex(randString(r)))
			}
		}
		emit(ops)
	}
	// --- generator, sequential and deterministic (state ahead of the clock)
	const timeShift = 22
	for c := 0; c < 30*scale; c++ {
		var ops []string
		mid := h.Pick(r, []int64{0, 1, 2, 5, 511, 512, 1022, 1023, int64(r.Intn(1024))})
		if r.Chance(0.15) {
			ops = append(ops, "new "+strconv.FormatInt(h.Pick(r, []int64{-1, 1024, 1025, -1024, 1 << 20, 1 << 40}), 10))
		}
		if r.Chance(0.3) {
			ops = append(ops, "newgen "+strconv.FormatInt(h.Pick(r, []int64{mid, mid + 1024, mid - 1024, -1, 1023, 1024, 4095, 1 << 33}), 10))
		} else {
			ops = append(ops, "new "+strconv.FormatInt(mid, 10))
		}
		ops = append(ops, "state")
		// a time field in the future (2^41 .. 2^42-1), sequence near the interesting edges
		tf := uint64(1)<<41 + r.Uint64()%(uint64(1)<<41)
		switch r.Intn(6) {
		case 0:
			tf = 1<<42 - 1 // last representable millisecond: the bump wraps
		case 1:
			tf = 1<<42 - 2
		case 2:
			tf = 1 << 41
		}
		seq := uint64(r.Intn(4096))
		switch r.Intn(4) {
		case 0:
			seq = 4095 - uint64(r.Intn(4))
		case 1:
			seq = uint64(r.Intn(3))
		}
		st := tf<<timeShift | seq
		if r.Chance(0.1) {
			// server bits set inside the shared word (only reachable through the fallback add, F12)
			st |= uint64(r.Intn(1024)) << 12
		}
		ops = append(ops, "set "+strconv.FormatUint(st, 10))
		steps := 3 + r.Intn(6)
		total := 0
		for i := 0; i < steps; i++ {
			switch r.Intn(6) {
			case 0:
				ops = append(ops, "state")
			case 1:
				ops = append(ops, "fresh")
				total++
			case 2:
				k := 1 + r.Intn(40)
				ops = append(ops, "gid "+strconv.Itoa(k))
				total += k
			default:
				k := 1 + r.Intn(300)
				if r.Chance(0.1) {
					k = 0
				}
				ops = append(ops, "next "+strconv.Itoa(k))
				total += k
			}
		}
		ops = append(ops, "state")
		emit(ops)
	}
	// --- generator under the real clock (model does not predict the values), sequential + concurrent
	concOp := func() string {
		n := 2 + r.Intn(15)
		total := 2000 + r.Intn(18000)
		if r.Chance(0.2) {
			total = 2 + r.Intn(200)
		}
		return "conc " + strconv.Itoa(n) + " " + strconv.Itoa(1+total/n)
	}
	for c := 0; c < 14*scale; c++ {
		var ops []string
		mid := int64(r.Intn(1024))
		ops = append(ops, "new "+strconv.FormatInt(mid, 10))
		if r.Chance(0.5) {
			ops = append(ops, "fresh") // from state 0: the first id carries the current millisecond
		}
		steps := 2 + r.Intn(3)
		for i := 0; i < steps; i++ {
			switch r.Intn(4) {
			case 0:
				ops = append(ops, "next "+strconv.Itoa(1+r.Intn(400)))
			case 1:
				ops = append(ops, "gid "+strconv.Itoa(1+r.Intn(100)))
			default:
				ops = append(ops, concOp())
			}
		}
		emit(ops)
	}
	// --- concurrent callers on a state ahead of the clock: the set of returned ids is predicted exactly
	for c := 0; c < 14*scale; c++ {
		var ops []string
		mid := int64(r.Intn(1024))
		ops = append(ops, "new "+strconv.FormatInt(mid, 10))
		tf := uint64(1)<<41 + r.Uint64()%(uint64(1)<<40)
		seq := uint64(r.Intn(4096))
		if r.Bool() {
			seq = 4095 - uint64(r.Intn(200))
		}
		ops = append(ops, "set "+strconv.FormatUint(tf<<timeShift|seq, 10))
		for i := 0; i < 1+r.Intn(2); i++ {
			ops = append(ops, concOp())
			if r.Bool() {
				ops = append(ops, "state")
			}
		}
		ops = append(ops, "next 3", "state")
		emit(ops)
	}
}

func main() {
	h.Main(h.Harness{Gen: gen, NewCase: func() h.CaseRunner { return &runner{} }, OpTimeout: 60 * time.Second})
}
