package shardh

import (
	"os"
	"path/filepath"

	"github.com/influxdata/influxdb/v2/tsdb"
)

// Crash points and change-log bookkeeping for C10.  tsdb.VerifHook (build tag
// verif) is called by the real code at the verifPoint call sites of
// tsdb/shard.go:
//
//	fields.beforeAppend  appendToChangesFile, right before the record is written
//	fields.tmpWritten    WriteToFile, fields.idx.tmp complete, not yet renamed
//	fields.renamed       renameFileNoLock, fields.idx replaced, fields.idxl still there
//	fields.idxRemoved    WriteToFile, empty set: fields.idx removed, fields.idxl still there

var current *Env

func init() { tsdb.VerifHook = hook }

func hook(name string) {
	e := current
	if e == nil {
		return
	}
	switch {
	case name == "fields.beforeAppend":
		sz := int64(0)
		if st, err := os.Stat(e.LogPath()); err == nil {
			sz = st.Size()
		}
		e.prevLogSize, e.appended = sz, true
	case name == e.crashPoint && e.crashDir == "":
		ndir, err := os.MkdirTemp(tempBase(), "verif-shard-")
		if err == nil && copyTree(e.Dir, ndir) == nil {
			e.crashDir = ndir
		}
	}
}

func (e *Env) LogPath() string { return filepath.Join(e.ShardPath(), "fields.idxl") }

// BeginOp is called before every state-changing operation (write, drop).
func (e *Env) BeginOp() { current = e; e.appended = false }

// LogSize renders the size of fields.idxl ("-" = no file).
func (e *Env) LogSize() (int64, bool) {
	st, err := os.Stat(e.LogPath())
	if err != nil {
		return 0, false
	}
	return st.Size(), true
}

// CrashTorn: process-kill copy in which only the first j bytes of the record
// appended by the last operation reached fields.idxl (fromEnd: all but the last
// j bytes).  Reports whether anything was cut.
func (e *Env) CrashTorn(j int64, fromEnd bool) (torn bool, err error) {
	appended, prev := e.appended, e.prevLogSize
	err = e.Crash(func(shardDir string) error {
		if !appended {
			return nil
		}
		p := filepath.Join(shardDir, "fields.idxl")
		st, err := os.Stat(p)
		if err != nil {
			return nil
		}
		recLen := st.Size() - prev
		if recLen <= 0 {
			return nil
		}
		if fromEnd {
			j = recLen - j
			if j < 0 {
				j = 0
			}
		}
		if j >= recLen {
			return nil
		}
		torn = true
		return os.Truncate(p, prev+j)
	})
	return torn, err
}

// CrashInClose closes the shard cleanly and, if the close reaches the crash
// point, continues from a copy of the directory taken at that point (the state a
// crash there leaves).  Reports whether the point was reached.
func (e *Env) CrashInClose(point string) (fired bool, err error) {
	current = e
	e.crashPoint, e.crashDir = point, ""
	cerr := e.CloseShard()
	if !e.dead && e.sfile != nil {
		WithTimeout(func() error { return e.sfile.Close() })
	}
	e.crashPoint = ""
	if e.dead {
		return false, ErrTimeout
	}
	if e.crashDir != "" {
		os.RemoveAll(e.Dir)
		e.Dir, e.crashDir = e.crashDir, ""
		fired = true
	} else if cerr != nil {
		return false, cerr
	}
	e.appended = false
	if err := e.openSeriesFile(); err != nil {
		return fired, err
	}
	return fired, e.Open()
}
