package shardh

import (
	"os"
	"path/filepath"

	"github.com/influxdata/influxdb/v2/tsdb"
)

// Crash points and change-log bookkeeping for C10.  tsdb.VerifHook (build tag
// verif) is called by the real code at the verifPoint call sites of
// tsdb/shard.go:
//
//	fields.beforeAppend  appendToChangesFile, right before the record is written
//	fields.tmpWritten    WriteToFile, fields.idx.tmp complete, not yet renamed
//	fields.renamed       renameFileNoLock, fields.idx replaced, fields.idxl still there
//	fields.idxRemoved    WriteToFile, empty set: fields.idx removed, fields.idxl still there

var current *Env

func init() { tsdb.VerifHook = hook }

func hook(name string) {
	e := current
	if e == nil {
		return
	}
	if name == "fields.beforeAppend" {
		sz := int64(0)
		if st, err := os.Stat(e.LogPath()); err == nil {
			sz = st.Size()
		}
		e.prevLogSize, e.appended = sz, true
	}
	if name == e.crashPoint && e.crashDir == "" {
		ndir, err := os.MkdirTemp(tempBase(), "verif-shard-")
		if err == nil && copyTree(e.Dir, ndir) == nil {
			e.crashDir = ndir
		}
	}
}

func (e *Env) LogPath() string { return filepath.Join(e.ShardPath(), "fields.idxl") }

// BeginOp is called before every state-changing operation (write, drop).
func (e *Env) BeginOp() { current = e; e.appended = false }

// LogSize renders the size of fields.idxl ("-" = no file).
func (e *Env) LogSize() (int64, bool) {
	st, err := os.Stat(e.LogPath())
	if err != nil {
		return 0, false
	}
	return st.Size(), true
}

// TornOp runs op (a write or a drop) on the live shard with a crash point armed
// right before its record is appended to fields.idxl.  If the operation appends
// a record, the crash state is the directory as it was at that moment plus the
// first j bytes of the record (j < 0: all but the last -j bytes); the live
// instance is retired and the shard is reopened on the crash state.
func (e *Env) TornOp(j int64, op func() string) (res string, crashed bool, err error) {
	current = e
	e.crashPoint, e.crashDir = "fields.beforeAppend", ""
	res = op()
	e.crashPoint = ""
	if e.crashDir == "" {
		return res, false, nil
	}
	ndir := e.crashDir
	e.crashDir = ""
	// the record the live instance appended
	full, rerr := os.ReadFile(e.LogPath())
	var rec []byte
	if rerr == nil && int64(len(full)) >= e.prevLogSize {
		rec = full[e.prevLogSize:]
	}
	n := j
	if j < 0 {
		n = int64(len(rec)) + j
		if n < 0 {
			n = 0
		}
	}
	if n > int64(len(rec)) {
		n = int64(len(rec))
	}
	// retire the live instance
	if !e.dead {
		e.CloseShard()
		if e.sfile != nil && !e.dead {
			WithTimeout(func() error { return e.sfile.Close() })
		}
	}
	os.RemoveAll(e.Dir)
	wasDead := e.dead
	e.Dir, e.Sh, e.sfile, e.appended = ndir, nil, nil, false
	if wasDead {
		return res, true, ErrTimeout
	}
	f, err := os.OpenFile(e.LogPath(), os.O_CREATE|os.O_APPEND|os.O_WRONLY, 0666)
	if err != nil {
		return res, true, err
	}
	if _, err := f.Write(rec[:n]); err != nil {
		f.Close()
		return res, true, err
	}
	f.Close()
	if err := e.openSeriesFile(); err != nil {
		return res, true, err
	}
	return res, true, e.Open()
}

// CrashInClose closes the shard cleanly and, if the close reaches the crash
// point, continues from a copy of the directory taken at that point (the state a
// crash there leaves).  Reports whether the point was reached.
func (e *Env) CrashInClose(point string) (fired bool, err error) {
	current = e
	e.crashPoint, e.crashDir = point, ""
	cerr := e.CloseShard()
	if !e.dead && e.sfile != nil {
		WithTimeout(func() error { return e.sfile.Close() })
	}
	e.crashPoint = ""
	if e.dead {
		return false, ErrTimeout
	}
	if e.crashDir != "" {
		os.RemoveAll(e.Dir)
		e.Dir, e.crashDir = e.crashDir, ""
		fired = true
	} else if cerr != nil {
		return false, cerr
	}
	e.appended = false
	if err := e.openSeriesFile(); err != nil {
		return fired, err
	}
	return fired, e.Open()
}

// Race runs two Shard.WritePoints calls concurrently (released together) and
// returns their results.
func (e *Env) Race(a, b []string) (string, string) {
	e.BeginOp()
	start := make(chan struct{})
	ra, rb := make(chan string, 1), make(chan string, 1)
	go func() { <-start; ra <- e.writeNoBegin(a) }()
	go func() { <-start; rb <- e.writeNoBegin(b) }()
	close(start)
	return <-ra, <-rb
}

// CrashInOpen: process-kill copy, then the recovery itself crashes: the copy is
// opened with the crash point armed; if the open reaches it, the directory as it
// is at that moment becomes the new crash state and is opened again.  Reports
// whether the point was reached.
func (e *Env) CrashInOpen(point string) (fired bool, err error) {
	current = e
	armed := false
	err = e.Crash(func(string) error {
		// from here on e.Dir is the copy: arm the point for the open that follows
		e.crashPoint, e.crashDir = point, ""
		armed = true
		return nil
	})
	if !armed {
		return false, err
	}
	e.crashPoint = ""
	if e.crashDir == "" {
		return false, err
	}
	// the first recovery is abandoned
	ndir := e.crashDir
	e.crashDir = ""
	if !e.dead {
		e.CloseShard()
		if e.sfile != nil && !e.dead {
			WithTimeout(func() error { return e.sfile.Close() })
		}
	}
	os.RemoveAll(e.Dir)
	if e.dead {
		os.RemoveAll(ndir)
		return true, ErrTimeout
	}
	e.Dir, e.Sh, e.sfile, e.appended = ndir, nil, nil, false
	if err := e.openSeriesFile(); err != nil {
		return true, err
	}
	return true, e.Open()
}
