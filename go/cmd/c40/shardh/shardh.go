// Package shardh is the part shared by the C40 and C10 harnesses: one real
// tsdb.Shard (tsi1 index, real series file, tsm1 engine with WAL) in a temp
// directory, the point token format, and canonical renderings of write
// results, cursor reads, the field schema and the raw engine keys.
//
// Point token:   <meas>|<k=v;k=v or ->|<field:T:val;...>|<ts>
//
//	T ∈ f i u b s ; val: f = 16 hex digits of the IEEE bits, i/u = decimal,
//	b = 0/1, s = <c>x<len>  (the byte 'a'+c repeated len times)
package shardh

import (
	"context"
	"errors"
	"fmt"
	"math"
	"os"
	"path/filepath"
	"sort"
	"strconv"
	"strings"
	"sync"
	"time"

	"github.com/influxdata/influxdb/v2/models"
	"github.com/influxdata/influxdb/v2/tsdb"
	"github.com/influxdata/influxdb/v2/tsdb/cursors"
	_ "github.com/influxdata/influxdb/v2/tsdb/engine"
	"github.com/influxdata/influxdb/v2/tsdb/engine/tsm1"
	_ "github.com/influxdata/influxdb/v2/tsdb/index"
	"github.com/influxdata/influxql"
)

// ReadLo/ReadHi: the read window (all generated timestamps lie strictly inside;
// the int64 extremes are another property's subject).
const (
	ReadLo = -(1 << 60)
	ReadHi = 1 << 60
)

// OpTimeout bounds Open/Close/Write of the real shard.
var OpTimeout = 150 * time.Second

type idSets []*tsdb.SeriesIDSet

func (a idSets) ForEach(f func(ids *tsdb.SeriesIDSet)) error {
	for _, v := range a {
		f(v)
	}
	return nil
}

type Env struct {
	Dir   string
	sfile *tsdb.SeriesFile
	Sh    *tsdb.Shard
	// every (series, field) ever submitted in this case: the read universe
	universe map[string]seriesField
	uniMu    sync.Mutex
	dead     bool
	// change-log bookkeeping (crash.go)
	prevLogSize int64
	appended    bool
	crashPoint  string
	crashDir    string
}

type seriesField struct {
	name  string
	tags  models.Tags
	tagsS string
	field string
}

// tempBase: shard directories go to a memory file system when there is one
// (the engine fsyncs on every write; crash states are produced by copying
// directories, never by relying on what the disk kept), else to $TMPDIR.
func tempBase() string {
	if d := os.Getenv("VERIF_SHARD_TMP"); d != "" {
		return d
	}
	if os.Getenv("TMPDIR") == "" {
		if st, err := os.Stat("/dev/shm"); err == nil && st.IsDir() {
			if f, err := os.CreateTemp("/dev/shm", "verif-probe-"); err == nil {
				f.Close()
				os.Remove(f.Name())
				return "/dev/shm"
			}
		}
	}
	return ""
}

func New() (*Env, error) {
	dir, err := os.MkdirTemp(tempBase(), "verif-shard-")
	if err != nil {
		return nil, err
	}
	e := &Env{Dir: dir, universe: map[string]seriesField{}}
	current = e
	if err := e.openSeriesFile(); err != nil {
		os.RemoveAll(dir)
		return nil, err
	}
	if err := e.Open(); err != nil {
		e.Close()
		return nil, err
	}
	return e, nil
}

func (e *Env) openSeriesFile() error {
	e.sfile = tsdb.NewSeriesFile(filepath.Join(e.Dir, "_series"))
	return WithTimeout(func() error { return e.sfile.Open() })
}

// ShardPath is the directory of the shard (fields.idx, fields.idxl, *.tsm live here).
func (e *Env) ShardPath() string { return filepath.Join(e.Dir, "data", "db0", "rp0", "1") }
func (e *Env) WalPath() string   { return filepath.Join(e.Dir, "wal", "db0", "rp0", "1") }

var ErrTimeout = errors.New("timeout")

func WithTimeout(f func() error) error {
	done := make(chan error, 1)
	go func() {
		defer func() {
			if r := recover(); r != nil {
				done <- fmt.Errorf("panic: %v", r)
			}
		}()
		done <- f()
	}()
	select {
	case err := <-done:
		return err
	case <-time.After(OpTimeout):
		return ErrTimeout
	}
}

// Open creates a new tsdb.Shard value on the directory and opens it.
func (e *Env) Open() error {
	opt := tsdb.NewEngineOptions()
	opt.IndexVersion = tsdb.TSI1IndexName
	opt.Config.WALDir = filepath.Join(e.Dir, "wal")
	opt.SeriesIDSets = idSets{}
	opt.MetricsDisabled = true
	sh := tsdb.NewShard(1, e.ShardPath(), e.WalPath(), e.sfile, opt)
	sh.CompactionDisabled = true
	sh.EnableOnOpen = true
	err := WithTimeout(func() error { return sh.Open(context.Background()) })
	if err == ErrTimeout {
		e.dead = true
		return err
	}
	if err != nil {
		return err
	}
	e.Sh = sh
	return nil
}

// CloseShard closes the shard (clean shutdown) and keeps the directory.
func (e *Env) CloseShard() error {
	if e.Sh == nil {
		return nil
	}
	sh := e.Sh
	e.Sh = nil
	err := WithTimeout(func() error { return sh.Close() })
	if err == ErrTimeout {
		e.dead = true
	}
	return err
}

// Reopen = clean close + open.
func (e *Env) Reopen() error {
	e.appended = false
	if err := e.CloseShard(); err != nil {
		return err
	}
	return e.Open()
}

// ReopenAll additionally closes and reopens the series file.
func (e *Env) ReopenAll() error {
	if err := e.CloseShard(); err != nil {
		return err
	}
	if err := WithTimeout(func() error { return e.sfile.Close() }); err != nil {
		return err
	}
	if err := e.openSeriesFile(); err != nil {
		return err
	}
	return e.Open()
}

func (e *Env) Close() {
	if current == e {
		current = nil
	}
	if !e.dead {
		e.CloseShard()
		if e.sfile != nil && !e.dead {
			WithTimeout(func() error { return e.sfile.Close() })
		}
	}
	os.RemoveAll(e.Dir)
}

// ---------------------------------------------------------------- points

type Field struct {
	Name string
	T    byte // f i u b s
	Val  string
}

type Pt struct {
	Meas   string
	Tags   [][2]string
	Fields []Field
	TS     int64
}

func ValidName(s string) bool {
	if s == "" {
		return false
	}
	for i := 0; i < len(s); i++ {
		c := s[i]
		if !(c >= 'a' && c <= 'z' || c >= 'A' && c <= 'Z' || c >= '0' && c <= '9' || c == '_') {
			return false
		}
	}
	return true
}

// TSLimit: generated timestamps lie strictly inside (-TSLimit, TSLimit).
const TSLimit = int64(1) << 60

// ParsePt parses and validates a point token exactly as the Lean driver does
// (Drv/C40.lean parsePoint): names [A-Za-z0-9_]+, tag keys and field names
// strictly ascending, canonical value tokens, |ts| < 2^60.
func ParsePt(tok string) (Pt, error) {
	parts := strings.Split(tok, "|")
	if len(parts) != 4 {
		return Pt{}, fmt.Errorf("bad point token %q", tok)
	}
	var p Pt
	p.Meas = parts[0]
	if !ValidName(p.Meas) {
		return Pt{}, fmt.Errorf("bad name")
	}
	if parts[1] != "-" {
		for _, kv := range strings.Split(parts[1], ";") {
			x := strings.Split(kv, "=")
			if len(x) != 2 || !ValidName(x[0]) || !ValidName(x[1]) {
				return Pt{}, fmt.Errorf("bad tag %q", kv)
			}
			if n := len(p.Tags); n > 0 && !(p.Tags[n-1][0] < x[0]) {
				return Pt{}, fmt.Errorf("tags not ascending")
			}
			p.Tags = append(p.Tags, [2]string{x[0], x[1]})
		}
	}
	for _, f := range strings.Split(parts[2], ";") {
		x := strings.Split(f, ":")
		if len(x) != 3 || len(x[1]) != 1 || !ValidName(x[0]) {
			return Pt{}, fmt.Errorf("bad field %q", f)
		}
		fl := Field{x[0], x[1][0], x[2]}
		if _, err := fieldValue(fl); err != nil {
			return Pt{}, err
		}
		if n := len(p.Fields); n > 0 && !(p.Fields[n-1].Name < fl.Name) {
			return Pt{}, fmt.Errorf("fields not ascending")
		}
		p.Fields = append(p.Fields, fl)
	}
	ts, err := strconv.ParseInt(parts[3], 10, 64)
	if err != nil || strconv.FormatInt(ts, 10) != parts[3] || ts <= -TSLimit || ts >= TSLimit {
		return Pt{}, fmt.Errorf("bad ts")
	}
	p.TS = ts
	return p, nil
}

func strVal(v string) (string, error) {
	x := strings.Split(v, "x")
	if len(x) != 2 {
		return "", fmt.Errorf("bad string value %q", v)
	}
	c, err1 := strconv.ParseUint(x[0], 10, 32)
	n, err2 := strconv.ParseUint(x[1], 10, 32)
	if err1 != nil || err2 != nil || strconv.FormatUint(c, 10) != x[0] || strconv.FormatUint(n, 10) != x[1] ||
		c > 25 || n > 4000000 || (n == 0 && c != 0) {
		return "", fmt.Errorf("bad string value %q", v)
	}
	return strings.Repeat(string(rune('a'+c)), int(n)), nil
}

func fieldValue(f Field) (interface{}, error) {
	switch f.T {
	case 'f':
		b, err := strconv.ParseUint(f.Val, 16, 64)
		if err != nil || len(f.Val) != 16 || fmt.Sprintf("%016x", b) != f.Val || (b>>52)&0x7ff == 0x7ff {
			return nil, fmt.Errorf("bad float %q", f.Val)
		}
		return math.Float64frombits(b), nil
	case 'i':
		v, err := strconv.ParseInt(f.Val, 10, 64)
		if err != nil || strconv.FormatInt(v, 10) != f.Val {
			return nil, fmt.Errorf("bad int %q", f.Val)
		}
		return v, nil
	case 'u':
		v, err := strconv.ParseUint(f.Val, 10, 64)
		if err != nil || strconv.FormatUint(v, 10) != f.Val {
			return nil, fmt.Errorf("bad uint %q", f.Val)
		}
		return v, nil
	case 'b':
		if f.Val == "1" {
			return true, nil
		} else if f.Val == "0" {
			return false, nil
		}
		return nil, fmt.Errorf("bad bool %q", f.Val)
	case 's':
		return strVal(f.Val)
	}
	return nil, fmt.Errorf("bad type %q", f.T)
}

// ToModel builds the real models.Point (fields in the order of the token are
// not preserved by models.NewPoint: it sorts the field keys).
func (p Pt) ToModel() (models.Point, error) {
	tags := map[string]string{}
	for _, kv := range p.Tags {
		tags[kv[0]] = kv[1]
	}
	fields := models.Fields{}
	for _, f := range p.Fields {
		v, err := fieldValue(f)
		if err != nil {
			return nil, err
		}
		fields[f.Name] = v
	}
	return models.NewPoint(p.Meas, models.NewTags(tags), fields, time.Unix(0, p.TS))
}

func tagsString(t models.Tags) string {
	if len(t) == 0 {
		return "-"
	}
	ss := make([]string, len(t))
	for i, kv := range t {
		ss[i] = string(kv.Key) + "=" + string(kv.Value)
	}
	return strings.Join(ss, ";")
}

// ---------------------------------------------------------------- operations

func reasonKind(r string) string {
	switch {
	case strings.HasPrefix(r, "invalid tag key"):
		return "tag-time"
	case strings.HasPrefix(r, "invalid field name") && strings.Contains(r, "stripped"):
		return "time-stripped"
	case strings.HasPrefix(r, "invalid field name"):
		return "field-time"
	case strings.Contains(r, "is too long"):
		return "too-long"
	case strings.HasPrefix(r, tsdb.ErrFieldTypeConflict.Error()):
		return "conflict"
	case strings.HasPrefix(r, "key contains invalid unicode"):
		return "unicode"
	}
	return "other"
}

func errEnum(err error) string {
	s := err.Error()
	switch {
	case err == ErrTimeout:
		return "timeout"
	case errors.Is(err, tsdb.ErrFieldTypeConflict):
		return "conflict"
	case errors.Is(err, tsdb.ErrEngineClosed), errors.Is(err, tsdb.ErrShardDisabled):
		return "closed"
	case strings.HasPrefix(s, "panic"):
		return "panic"
	}
	return "other"
}

// Write runs Shard.WritePoints on the batch, then reads everything back:
//
//	(ok | partial <dropped> <kind of first reason> | err:<enum>) <entries as in Read>
func (e *Env) Write(toks []string) string {
	res := e.write(toks)
	if res == "bad-op" || res == "bad-point" {
		return "bad-op"
	}
	return res + " " + e.Read()
}

// ValidBatch reports whether every token is a well-formed point.
func (e *Env) ValidBatch(toks []string) bool {
	for _, t := range toks {
		p, err := ParsePt(t)
		if err != nil {
			return false
		}
		if _, err := p.ToModel(); err != nil {
			return false
		}
	}
	return len(toks) > 0
}

// WriteOnly runs Shard.WritePoints and renders only the result ("bad-op" for an
// ill-formed batch).
func (e *Env) WriteOnly(toks []string) string {
	res := e.write(toks)
	if res == "bad-point" {
		return "bad-op"
	}
	return res
}

func (e *Env) write(toks []string) string {
	e.BeginOp()
	return e.writeNoBegin(toks)
}

func (e *Env) writeNoBegin(toks []string) string {
	var pts []models.Point
	for _, t := range toks {
		p, err := ParsePt(t)
		if err != nil {
			return "bad-op"
		}
		mp, err := p.ToModel()
		if err != nil {
			return "bad-point"
		}
		e.uniMu.Lock()
		for _, f := range p.Fields {
			sf := seriesField{name: p.Meas, tags: mp.Tags().Clone(), tagsS: tagsString(mp.Tags()), field: f.Name}
			e.universe[sf.name+"|"+sf.tagsS+"|"+sf.field] = sf
		}
		e.uniMu.Unlock()
		pts = append(pts, mp)
	}
	if e.Sh == nil {
		return "err:closed"
	}
	err := WithTimeout(func() error { return e.Sh.WritePoints(context.Background(), pts) })
	if err == nil {
		return "ok"
	}
	if err == ErrTimeout {
		e.dead = true
	}
	var pw tsdb.PartialWriteError
	if errors.As(err, &pw) {
		return fmt.Sprintf("partial %d %s", pw.Dropped, reasonKind(pw.Reason))
	}
	if os.Getenv("VERIF_DEBUG") != "" {
		fmt.Fprintln(os.Stderr, "write error:", err)
	}
	return "err:" + errEnum(err)
}

func typeChar(t influxql.DataType) string {
	switch t {
	case influxql.Float:
		return "f"
	case influxql.Integer:
		return "i"
	case influxql.Unsigned:
		return "u"
	case influxql.Boolean:
		return "b"
	case influxql.String:
		return "s"
	}
	return "?" + strconv.Itoa(int(t))
}

func renderStr(s string) string {
	if s == "" {
		return "0x0"
	}
	c := s[0]
	for i := 0; i < len(s); i++ {
		if s[i] != c {
			return "?mixed"
		}
	}
	if c < 'a' || c > 'z' {
		return "?char"
	}
	return strconv.Itoa(int(c-'a')) + "x" + strconv.Itoa(len(s))
}

// Read reads every (series, field) of the universe through the storage cursor
// API (Shard.CreateCursorIterator) over the whole time range, ascending.
//
//	entries  <meas>|<tags>|<field>|<ts>|<T>:<val>  sorted, comma-joined ("-" = nothing)
func (e *Env) Read() string {
	if e.Sh == nil {
		return "err:closed"
	}
	var out []string
	err := WithTimeout(func() error {
		ctx := context.Background()
		itr, err := e.Sh.CreateCursorIterator(ctx)
		if err != nil {
			return err
		}
		keys := make([]string, 0, len(e.universe))
		for k := range e.universe {
			keys = append(keys, k)
		}
		sort.Strings(keys)
		for _, k := range keys {
			sf := e.universe[k]
			cur, err := itr.Next(ctx, &tsdb.CursorRequest{Name: []byte(sf.name), Tags: sf.tags, Field: sf.field,
				Ascending: true, StartTime: ReadLo, EndTime: ReadHi})
			if err != nil {
				return err
			}
			if cur == nil {
				continue
			}
			pre := k + "|"
			switch c := cur.(type) {
			case cursors.FloatArrayCursor:
				for a := c.Next(); a.Len() > 0; a = c.Next() {
					for i, t := range a.Timestamps {
						out = append(out, fmt.Sprintf("%s%d|f:%016x", pre, t, math.Float64bits(a.Values[i])))
					}
				}
			case cursors.IntegerArrayCursor:
				for a := c.Next(); a.Len() > 0; a = c.Next() {
					for i, t := range a.Timestamps {
						out = append(out, fmt.Sprintf("%s%d|i:%d", pre, t, a.Values[i]))
					}
				}
			case cursors.UnsignedArrayCursor:
				for a := c.Next(); a.Len() > 0; a = c.Next() {
					for i, t := range a.Timestamps {
						out = append(out, fmt.Sprintf("%s%d|u:%d", pre, t, a.Values[i]))
					}
				}
			case cursors.BooleanArrayCursor:
				for a := c.Next(); a.Len() > 0; a = c.Next() {
					for i, t := range a.Timestamps {
						v := "0"
						if a.Values[i] {
							v = "1"
						}
						out = append(out, fmt.Sprintf("%s%d|b:%s", pre, t, v))
					}
				}
			case cursors.StringArrayCursor:
				for a := c.Next(); a.Len() > 0; a = c.Next() {
					for i, t := range a.Timestamps {
						out = append(out, fmt.Sprintf("%s%d|s:%s", pre, t, renderStr(a.Values[i])))
					}
				}
			}
			if cerr := cur.Err(); cerr != nil {
				cur.Close()
				return cerr
			}
			cur.Close()
		}
		return nil
	})
	if err != nil {
		return "err:" + errEnum(err)
	}
	sort.Strings(out)
	if len(out) == 0 {
		return "-"
	}
	return strings.Join(out, ",")
}

// Schema renders the shard's MeasurementFieldSet:  m.f:T  sorted, comma-joined.
func (e *Env) Schema() string {
	if e.Sh == nil {
		return "err:closed"
	}
	eng, err := e.Sh.Engine()
	if err != nil {
		return "err:" + errEnum(err)
	}
	fs := eng.MeasurementFieldSet()
	var out []string
	for _, m := range fs.MeasurementNames() {
		mf := fs.FieldsByString(m)
		if mf == nil {
			continue
		}
		for f, t := range mf.FieldSet() {
			out = append(out, m+"."+f+":"+typeChar(t))
		}
	}
	sort.Strings(out)
	if len(out) == 0 {
		return "-"
	}
	return strings.Join(out, ",")
}

func blockTypeChar(t byte) string {
	switch t {
	case tsm1.BlockFloat64:
		return "f"
	case tsm1.BlockInteger:
		return "i"
	case tsm1.BlockUnsigned:
		return "u"
	case tsm1.BlockBoolean:
		return "b"
	case tsm1.BlockString:
		return "s"
	}
	return "?"
}

func fieldTypeChar(t models.FieldType) string {
	switch t {
	case models.Float:
		return "f"
	case models.Integer:
		return "i"
	case models.Unsigned:
		return "u"
	case models.Boolean:
		return "b"
	case models.String:
		return "s"
	}
	return "?"
}

// RawKeys lists what the tsm1 engine physically holds (cache ∪ TSM files),
// independent of the field schema:  <series key>#<field>:<T>  sorted.
func (e *Env) RawKeys() string {
	if e.Sh == nil {
		return "err:closed"
	}
	eng, err := e.Sh.Engine()
	if err != nil {
		return "err:" + errEnum(err)
	}
	te, ok := eng.(*tsm1.Engine)
	if !ok {
		return "err:other"
	}
	set := map[string]bool{}
	for _, k := range te.Cache.Keys() {
		t, err := te.Cache.Type(k)
		if err != nil {
			continue // entry without values
		}
		sk, f := tsm1.SeriesAndFieldFromCompositeKey(k)
		set[canonSeries(sk)+"#"+string(f)+":"+fieldTypeChar(t)] = true
	}
	for k, t := range te.FileStore.Keys() {
		sk, f := tsm1.SeriesAndFieldFromCompositeKey([]byte(k))
		set[canonSeries(sk)+"#"+string(f)+":"+blockTypeChar(t)] = true
	}
	out := make([]string, 0, len(set))
	for k := range set {
		out = append(out, k)
	}
	sort.Strings(out)
	if len(out) == 0 {
		return "-"
	}
	return strings.Join(out, ",")
}

func canonSeries(sk []byte) string {
	name, tags := models.ParseKeyBytes(sk)
	return string(name) + "|" + tagsString(tags)
}

// Snapshot flushes the cache into a TSM file.
func (e *Env) Snapshot() string {
	if e.Sh == nil {
		return "err:closed"
	}
	eng, err := e.Sh.Engine()
	if err != nil {
		return "err:" + errEnum(err)
	}
	te, ok := eng.(*tsm1.Engine)
	if !ok {
		return "err:other"
	}
	if err := WithTimeout(func() error { return te.WriteSnapshot() }); err != nil {
		if err == ErrTimeout {
			e.dead = true
		}
		if os.Getenv("VERIF_DEBUG") != "" {
			fmt.Fprintln(os.Stderr, "snapshot error:", err)
		}
		return "err:" + errEnum(err)
	}
	return "ok"
}

// DropMeasurement = Shard.DeleteMeasurement.
func (e *Env) DropMeasurement(m string) string {
	if e.Sh == nil {
		return "err:closed"
	}
	e.BeginOp()
	if err := WithTimeout(func() error { return e.Sh.DeleteMeasurement(context.Background(), []byte(m)) }); err != nil {
		if err == ErrTimeout {
			e.dead = true
		}
		if os.Getenv("VERIF_DEBUG") != "" {
			fmt.Fprintln(os.Stderr, "drop error:", err)
		}
		return "err:" + errEnum(err)
	}
	return "ok"
}

func (e *Env) Dead() bool { return e.dead }

// ---------------------------------------------------------------- unclean restart

func copyTree(src, dst string) error {
	return filepath.Walk(src, func(p string, info os.FileInfo, err error) error {
		if err != nil {
			return err
		}
		rel, _ := filepath.Rel(src, p)
		q := filepath.Join(dst, rel)
		if info.IsDir() {
			return os.MkdirAll(q, 0777)
		}
		b, err := os.ReadFile(p)
		if err != nil {
			return err
		}
		// pre-allocated files (series file segments) end in megabytes of zeros:
		// keep them sparse in the copy
		n := len(b)
		for n > 0 && b[n-1] == 0 {
			n--
		}
		if err := os.WriteFile(q, b[:n], 0666); err != nil {
			return err
		}
		if n < len(b) {
			return os.Truncate(q, int64(len(b)))
		}
		return nil
	})
}

// Crash models a process kill: the directory tree (shard, WAL, series file) is
// copied as the operating system sees it right now — every completed write(2)
// is in the copy, nothing of the clean-shutdown path has run — optionally
// edited by `edit` (e.g. a cut of fields.idxl, which is what a power loss may
// do to the unsynced tail), and a new Shard is opened on the copy.  The old
// instance is then closed and its directory removed.
func (e *Env) Crash(edit func(shardDir string) error) error {
	ndir, err := os.MkdirTemp(tempBase(), "verif-shard-")
	if err != nil {
		return err
	}
	if err := copyTree(e.Dir, ndir); err != nil {
		os.RemoveAll(ndir)
		return err
	}
	// retire the old instance
	oldDir := e.Dir
	if !e.dead {
		e.CloseShard()
		if e.sfile != nil && !e.dead {
			WithTimeout(func() error { return e.sfile.Close() })
		}
	}
	os.RemoveAll(oldDir)
	e.Dir, e.Sh, e.sfile = ndir, nil, nil
	e.appended = false
	if e.dead {
		return ErrTimeout
	}
	if edit != nil {
		if err := edit(e.ShardPath()); err != nil {
			return err
		}
	}
	if err := e.openSeriesFile(); err != nil {
		return err
	}
	return e.Open()
}
