package shardh

import (
	"fmt"
	"math"
	"sort"
	"strconv"
	"strings"

	"verif/harness/h"
)

// G is the point/batch generator shared with the C10 harness.  It keeps a
// *guess* of the schema (only to steer towards valid points and conflicts; the
// expected answers come from the Lean model, never from here).
type G struct {
	R      *h.Rand
	Types  map[string]byte // "meas.field" -> type char the generator believes is on record
	TS     int64
	Used   []string // "meas|tags|ts" of earlier points (for deliberate overwrites)
	Long   bool     // this case may contain ~1 MiB strings
	Meas   []string
	Fields []string
}

func NewG(r *h.Rand) *G {
	g := &G{R: r, Types: map[string]byte{}, TS: r.Range(-1000, 1000)}
	g.Meas = [][]string{{"cpu", "mem"}, {"cpu", "mem", "m3"}, {"m"}}[r.Intn(3)]
	g.Fields = []string{"a", "b", "c", "v", "w", "x1"}
	return g
}

var tagSets = []string{"-", "h=a", "h=b", "h=a;r=x", "dc=e1;h=a", "r=y"}
var typeChars = []byte{'f', 'i', 'u', 'b', 's'}

func (g *G) value(t byte) string {
	r := g.R
	switch t {
	case 'f':
		for {
			var b uint64
			switch r.Intn(6) {
			case 0:
				b = math.Float64bits(float64(r.Range(-50, 50)))
			case 1:
				b = h.Pick(r, []uint64{0, 1 << 63, math.Float64bits(1), math.Float64bits(math.MaxFloat64), 1, math.Float64bits(-0.5)})
			default:
				b = r.Uint64()
			}
			if (b>>52)&0x7ff != 0x7ff {
				return fmt.Sprintf("%016x", b)
			}
		}
	case 'i':
		switch r.Intn(8) {
		case 0:
			return strconv.FormatInt(h.Pick(r, []int64{math.MinInt64, math.MaxInt64, 0, -1}), 10)
		default:
			return strconv.FormatInt(r.Range(-100, 100), 10)
		}
	case 'u':
		switch r.Intn(8) {
		case 0:
			return strconv.FormatUint(h.Pick(r, []uint64{math.MaxUint64, 0, 1 << 63}), 10)
		default:
			return strconv.FormatUint(uint64(r.Intn(200)), 10)
		}
	case 'b':
		return h.B(r.Bool())
	default:
		n := r.Intn(9)
		if n == 0 {
			return "0x0"
		}
		return fmt.Sprintf("%dx%d", r.Intn(26), n)
	}
}

func otherType(r *h.Rand, t byte) byte {
	for {
		c := h.Pick(r, typeChars)
		if c != t {
			return c
		}
	}
}

type gField struct {
	name string
	t    byte
	val  string
}

func renderPoint(m, tags string, fs []gField, ts int64) string {
	sort.Slice(fs, func(i, j int) bool { return fs[i].name < fs[j].name })
	parts := make([]string, len(fs))
	for i, f := range fs {
		parts[i] = f.name + ":" + string(f.t) + ":" + f.val
	}
	return m + "|" + tags + "|" + strings.Join(parts, ";") + "|" + strconv.FormatInt(ts, 10)
}

// okField picks a field and the type the generator believes is (or becomes) right.
func (g *G) okField(m string, exclude map[string]bool) (gField, bool) {
	for try := 0; try < 8; try++ {
		f := h.Pick(g.R, g.Fields)
		if exclude[f] {
			continue
		}
		t, ok := g.Types[m+"."+f]
		if !ok {
			t = h.Pick(g.R, typeChars)
			g.Types[m+"."+f] = t
		}
		return gField{f, t, g.value(t)}, true
	}
	return gField{}, false
}

func (g *G) nextTS() int64 {
	g.TS += g.R.Range(1, 5)
	return g.TS
}

// Point generates one point; kind selects the intent.
func (g *G) Point(kind int) string {
	r := g.R
	m := h.Pick(r, g.Meas)
	tags := h.Pick(r, tagSets)
	ts := g.nextTS()
	if len(g.Used) > 0 && r.Chance(0.12) { // aim at an existing (series, ts)
		u := strings.Split(h.Pick(r, g.Used), "|")
		m, tags = u[0], u[1]
		ts, _ = strconv.ParseInt(u[2], 10, 64)
	}
	used := map[string]bool{}
	var fs []gField
	add := func(f gField) { fs = append(fs, f); used[f.name] = true }
	nOK := 1 + r.Intn(3)
	switch kind {
	case 0: // valid
		for i := 0; i < nOK; i++ {
			if f, ok := g.okField(m, used); ok {
				add(f)
			}
		}
	case 1: // type conflict on one field (position random among the sorted fields)
		for i := 0; i < nOK-1; i++ {
			if f, ok := g.okField(m, used); ok {
				add(f)
			}
		}
		if f, ok := g.okField(m, used); ok {
			f.t = otherType(r, f.t)
			f.val = g.value(f.t)
			add(f)
		}
	case 2: // tag named time
		for i := 0; i < nOK; i++ {
			if f, ok := g.okField(m, used); ok {
				add(f)
			}
		}
		if tags == "-" {
			tags = "time=t1"
		} else {
			// keep tag keys ascending
			kv := strings.Split(tags, ";")
			kv = append(kv, "time=t1")
			sort.Strings(kv)
			tags = strings.Join(kv, ";")
		}
	case 3: // only a field named time
		t := h.Pick(r, typeChars)
		add(gField{"time", t, g.value(t)})
	case 4: // a field named time next to others (valid or conflicting)
		t := h.Pick(r, typeChars)
		add(gField{"time", t, g.value(t)})
		for i := 0; i < nOK; i++ {
			if f, ok := g.okField(m, used); ok {
				if r.Chance(0.25) {
					f.t = otherType(r, f.t)
					f.val = g.value(f.t)
				}
				add(f)
			}
		}
	case 5: // a brand-new field name, then maybe a conflict behind it (created-by-rejected)
		nf := fmt.Sprintf("n%d", r.Intn(4))
		if !used[nf] {
			t, ok := g.Types[m+"."+nf]
			if !ok {
				t = h.Pick(r, typeChars)
				g.Types[m+"."+nf] = t
			} else if r.Chance(0.5) {
				t = otherType(r, t)
			}
			add(gField{nf, t, g.value(t)})
		}
		if f, ok := g.okField(m, used); ok {
			if r.Chance(0.5) {
				f.t = otherType(r, f.t)
				f.val = g.value(f.t)
			}
			add(f)
		}
	case 6: // string length around MaxFieldValueLength
		f := h.Pick(r, g.Fields)
		t, ok := g.Types[m+"."+f]
		if !ok || r.Chance(0.3) {
			t = 's'
			if !ok {
				g.Types[m+"."+f] = 's'
			}
		}
		if t == 's' {
			n := h.Pick(r, []int{1048576, 1048577, 1048577, 1048575, 1100000})
			add(gField{f, 's', fmt.Sprintf("%dx%d", r.Intn(26), n)})
		} else { // a too-long string that is also a type conflict
			add(gField{f, 's', fmt.Sprintf("%dx%d", r.Intn(26), 1048577)})
		}
		if r.Chance(0.5) {
			if f2, ok := g.okField(m, used); ok {
				add(f2)
			}
		}
	}
	if len(fs) == 0 {
		t := h.Pick(r, typeChars)
		fs = append(fs, gField{"v", t, g.value(t)})
	}
	g.Used = append(g.Used, m+"|"+tags+"|"+strconv.FormatInt(ts, 10))
	if len(g.Used) > 40 {
		g.Used = g.Used[1:]
	}
	return renderPoint(m, tags, fs, ts)
}

// Batch: n points; `mixed` chooses the share of invalid kinds.
func (g *G) Batch(n int, invalid float64) string {
	r := g.R
	seen := map[string]bool{}
	var pts []string
	for len(pts) < n {
		kind := 0
		if r.Chance(invalid) {
			kind = h.Pick(r, []int{1, 1, 1, 2, 3, 4, 4, 5, 5, 5})
			if g.Long && r.Chance(0.2) {
				kind = 6
			}
		} else if r.Chance(0.15) {
			kind = 5
		}
		p := g.Point(kind)
		// (series, ts) distinct inside a batch (97%): which duplicate wins is C01's subject
		pp, _ := ParsePt(p)
		k := pp.Meas + "|" + strings.Split(p, "|")[1] + "|" + strconv.FormatInt(pp.TS, 10)
		if seen[k] && !r.Chance(0.03) {
			continue
		}
		seen[k] = true
		pts = append(pts, p)
	}
	return "w " + strings.Join(pts, " ")
}
