package main

import (
	"verif/harness/cmd/c40/shardh"
	"verif/harness/h"
)

func gen(r *h.Rand, tier string, emit func([]string)) {
	n := 500
	if tier == "thorough" {
		n = 2500
	}
	for c := 0; c < n; c++ {
		g := shardh.NewG(r)
		g.Long = c%12 == 5
		var ops []string
		aux := func() {
			for r.Chance(0.45) {
				ops = append(ops, h.Pick(r, []string{"r", "f", "k", "snap", "reopen", "snap", "reopen"}))
			}
		}
		// pre-seed a schema with valid writes
		for i := r.Intn(3); i >= 0; i-- {
			ops = append(ops, g.Batch(1+r.Intn(6), 0))
		}
		aux()
		// mixed batches
		for i := 1 + r.Intn(4); i > 0; i-- {
			inv := h.Pick(r, []float64{0.2, 0.4, 0.6, 1.0})
			sz := 1 + r.Intn(10)
			if r.Chance(0.1) {
				sz = 15 + r.Intn(25)
			}
			if g.Long && sz > 6 {
				sz = 6
			}
			ops = append(ops, g.Batch(sz, inv))
			aux()
		}
		ops = append(ops, "r", "f", "k")
		emit(ops)
	}
	// a few malformed lines: both sides must answer bad-op
	emit([]string{"w", "w cpu|h=a|v:i:1", "w cpu|h=a|v:q:1|5", "w cpu|h=a|b:i:1;a:i:2|5", "w cpu|h=b;h=a|a:i:1|5",
		"w cpu|-|a:i:01|5", "w cpu|-|a:f:7ff0000000000000|5", "w cpu|-|a:i:1|1152921504606846976", "x", "r 1",
		"w c-pu|-|a:i:1|5", "w cpu|-|a:s:0x1|5", "w cpu|-|a:s:3x2|6", "r"})
}
