// Harness for C40: drives the real tsdb.Shard.WritePoints (tsi1 index, series
// file, tsm1 engine with WAL, all in a temp dir) with mixed batches against
// pre-seeded schemas and reads the data back through the storage cursors.
package main

import (
	"time"
	"verif/harness/cmd/c40/shardh"
	"verif/harness/h"
)

type runner struct {
	env *shardh.Env
	err error
}

func newCase() h.CaseRunner {
	env, err := shardh.New()
	return &runner{env: env, err: err}
}

func (r *runner) Op(t []string) string {
	if r.err != nil {
		return "err:setup"
	}
	if len(t) == 0 {
		return "bad-op"
	}
	switch {
	case t[0] == "w" && len(t) >= 2:
		return r.env.Write(t[1:])
	case t[0] == "r" && len(t) == 1:
		return r.env.Read()
	case t[0] == "f" && len(t) == 1:
		return r.env.Schema()
	case t[0] == "k" && len(t) == 1:
		return r.env.RawKeys()
	case t[0] == "snap" && len(t) == 1:
		return r.env.Snapshot()
	case t[0] == "reopen" && len(t) == 1:
		if err := r.env.Reopen(); err != nil {
			return "err:open"
		}
		return "ok"
	case t[0] == "drop" && len(t) == 2:
		return r.env.DropMeasurement(t[1])
	case t[0] == "crash" && len(t) == 1:
		if err := r.env.Crash(nil); err != nil {
			return "err:open"
		}
		return "ok"
	}
	return "bad-op"
}

func (r *runner) Close() {
	if r.env != nil {
		r.env.Close()
	}
}

func main() {
	h.Main(h.Harness{Gen: gen, NewCase: newCase, OpTimeout: 10 * time.Minute})
}
