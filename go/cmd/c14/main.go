// Harness for C14: drives a real tsi1.Index (temp dir) with its real series file.
//
//	cfg <partitions 1|8>                 first op of a case
//	c  <id> <part> <name> <tags>         Index.CreateSeriesListIfNotExists (id = the series-file id the
//	                                     generator predicts, part = the tsi1 partition; both are checked)
//	x  <id>                              the engine's delete flow for one series: Index.DropSeries(id,key,false),
//	                                     Index.DropMeasurementIfSeriesNotExist(name), SeriesFile.DeleteSeriesID(id)
//	xi <id>                              the index half only (the series stays in the series file, as when
//	                                     another shard still holds it)
//	xm <name>                            the engine's flow for every live series of the measurement
//	xmi <name>                           the index half only
//	roll <p> | clog <p> | clvl <p> <l>   Partition.prependActiveLogFile / compactLogFile / compactToLevel (hooks)
//	bg                                   enable the index's own background compaction, wait until it settles
//	reopen                               close index and series file, open both again
//	crash <p> <k> <extra>                crash while the last mutating op was in flight: close; of the entries
//	                                     that op appended to partition p's active log keep the first k plus
//	                                     `extra` bytes of the next one (entry boundaries found with the real
//	                                     LogEntry.UnmarshalBinary), truncate there; open again
//	ms | tk <name> | tv <name> <key>     MeasurementIterator / TagKeyIterator / TagValueIterator, drained
//	sm <name> | sk <name> <key> | sv <name> <key> <value>
//	                                     IndexSet.{Measurement,TagKey,TagValue}SeriesIDIterator (undeleted filter)
//	rsm | rsk | rsv …                    the same on the bare tsi1.Index (no series-file filter)
package main

import (
	"fmt"
	"os"
	"path/filepath"
	"sort"
	"strconv"
	"strings"
	"time"

	"github.com/cespare/xxhash/v2"
	"github.com/influxdata/influxdb/v2/models"
	"github.com/influxdata/influxdb/v2/tsdb"
	"github.com/influxdata/influxdb/v2/tsdb/index/tsi1"
	"verif/harness/h"
)

type series struct {
	id   uint64
	name string
	tags models.Tags
	key  []byte // models.MakeKey
}

type runner struct {
	dir    string
	sfile  *tsdb.SeriesFile
	idx    *tsi1.Index
	partN  uint64
	byID   map[uint64]*series
	live   map[uint64]bool // created and not dropped from the index
	err    error
	opened bool
	before []int64 // size of each partition's active log before the last mutating operation
}

func newRunner() h.CaseRunner {
	r := &runner{byID: map[uint64]*series{}, live: map[uint64]bool{}, partN: 1}
	dir, err := os.MkdirTemp("", "verif-c14-")
	if err != nil {
		r.err = err
		return r
	}
	r.dir = dir
	return r
}

func (r *runner) open() error {
	r.sfile = tsdb.NewSeriesFile(filepath.Join(r.dir, "_series"))
	if err := r.sfile.Open(); err != nil {
		return err
	}
	r.idx = tsi1.NewIndex(r.sfile, "db0", tsi1.WithPath(filepath.Join(r.dir, "index")),
		tsi1.WithMaximumLogFileSize(1<<30), tsi1.WithMaximumLogFileAge(1000*time.Hour))
	r.idx.PartitionN = r.partN
	if err := r.idx.Open(); err != nil {
		return err
	}
	// Open starts the partitions' own compaction (every non-active log file, then level
	// merges); it cannot be switched off beforehand, so let it settle. Afterwards compactions
	// are driven explicitly (roll/clog/clvl) or by `bg`.
	r.settle()
	r.idx.DisableCompactions()
	r.idx.Wait()
	r.opened = true
	return nil
}

func (r *runner) closeAll() {
	if r.idx != nil {
		r.idx.Close()
		r.idx = nil
	}
	if r.sfile != nil {
		r.sfile.Close()
		r.sfile = nil
	}
	r.opened = false
}

// Close must not hang the whole run when the code under test leaks a file-set reference
// (Index.Close waits for every retained file): give up after a while.
func (r *runner) Close() {
	const closeTimeout = 15 * time.Second
	done := make(chan struct{})
	go func() { defer close(done); defer func() { recover() }(); r.closeNow() }()
	select {
	case <-done:
	case <-time.After(closeTimeout):
	}
}

func (r *runner) closeNow() {
	r.closeAll()
	if r.dir != "" {
		os.RemoveAll(r.dir)
	}
}

func okName(s string) bool {
	if s == "" {
		return false
	}
	for _, c := range s {
		if !(c >= 'a' && c <= 'z' || c >= '0' && c <= '9') {
			return false
		}
	}
	return true
}

// tags: `-` or k=v,k=v (plain [a-z0-9] tokens)
func parseTags(s string) (models.Tags, bool) {
	var tags models.Tags
	for _, p := range h.Split(s) {
		kv := strings.Split(p, "=")
		if len(kv) != 2 || !okName(kv[0]) || !okName(kv[1]) {
			return nil, false
		}
		tags = append(tags, models.NewTag([]byte(kv[0]), []byte(kv[1])))
	}
	sort.Sort(tags)
	for i := 1; i < len(tags); i++ {
		if string(tags[i].Key) == string(tags[i-1].Key) {
			return nil, false
		}
	}
	return tags, true
}

func (r *runner) part(p string) *tsi1.Partition {
	n, err := strconv.Atoi(p)
	if err != nil || n < 0 || uint64(n) >= r.partN {
		return nil
	}
	return r.idx.PartitionAt(n)
}

func (r *runner) indexSet() tsdb.IndexSet {
	return tsdb.IndexSet{Indexes: []tsdb.Index{r.idx}, SeriesFile: r.sfile}
}

func drainIDs(itr tsdb.SeriesIDIterator, err error) string {
	if err != nil {
		return "err"
	}
	var ids []int64
	if itr != nil {
		defer itr.Close()
		for {
			e, err := itr.Next()
			if err != nil {
				return "err"
			}
			if e.SeriesID == 0 {
				break
			}
			ids = append(ids, int64(e.SeriesID))
		}
	}
	sort.Slice(ids, func(i, j int) bool { return ids[i] < ids[j] })
	return "ids " + h.Ints(ids)
}

type byteItr interface {
	Next() ([]byte, error)
	Close() error
}

func drainNames(itr byteItr, err error) string {
	if err != nil {
		return "err"
	}
	var out []string
	if itr != nil {
		defer itr.Close()
		for {
			b, err := itr.Next()
			if err != nil {
				return "err"
			}
			if b == nil {
				break
			}
			out = append(out, string(b))
		}
	}
	sort.Strings(out)
	return "names " + h.Join(out)
}

// mark records, before a mutating operation, how long every active log is.
func (r *runner) mark() {
	r.before = make([]int64, r.partN)
	for i := range r.before {
		// the logical end of the log: after a torn tail was dropped on open the file on disk
		// is longer than this (LogFile.open seeks back, it does not truncate)
		r.before[i] = tsi1.VerifActiveLogSize(r.idx.PartitionAt(i))
	}
}

func (r *runner) dropIndex(s *series) error {
	if err := r.idx.DropSeries(s.id, s.key, false); err != nil {
		return err
	}
	delete(r.live, s.id)
	return nil
}

func (r *runner) settle() {
	// background compactions: wait until nothing is running and nothing is needed
	deadline := time.Now().Add(20 * time.Second)
	for time.Now().Before(deadline) {
		r.idx.Wait()
		need := false
		for i := 0; i < int(r.partN); i++ {
			if r.idx.PartitionAt(i).NeedsCompaction(false) || r.idx.PartitionAt(i).CurrentCompactionN() > 0 {
				need = true
			}
		}
		if !need {
			return
		}
		time.Sleep(5 * time.Millisecond)
	}
}

func (r *runner) Op(t []string) string {
	if r.err != nil {
		return "err:setup"
	}
	if len(t) == 2 && t[0] == "cfg" {
		if r.opened || (t[1] != "1" && t[1] != "8") {
			return "bad-op"
		}
		r.partN = uint64(h.Atoi(t[1]))
		if err := r.open(); err != nil {
			r.err = err
			return "err:open"
		}
		return "ok"
	}
	if !r.opened {
		if err := r.open(); err != nil {
			r.err = err
			return "err:open"
		}
	}
	switch {
	case len(t) == 5 && t[0] == "c":
		id := uint64(h.Atoi(t[1]))
		part := h.Atoi(t[2])
		if !okName(t[3]) {
			return "bad-op"
		}
		tags, ok := parseTags(t[4])
		if !ok {
			return "bad-op"
		}
		name := []byte(t[3])
		key := models.MakeKey(name, tags)
		if part < 0 || uint64(part) >= r.partN || (id == 0 && os.Getenv("VERIF_C14_EXPLORE") == "") {
			return "bad-op"
		}
		if int64(xxhash.Sum64(key)&(r.partN-1)) != part {
			return "err:partition-mismatch"
		}
		r.mark()
		if err := r.idx.CreateSeriesListIfNotExists([][]byte{key}, [][]byte{name}, []models.Tags{tags}); err != nil {
			return "err:create"
		}
		real := r.sfile.SeriesID(name, tags, nil)
		if id == 0 { // exploration only (VERIF_C14_EXPLORE): report the id instead of checking it
			id = real
			r.byID[id] = &series{id: id, name: t[3], tags: tags, key: key}
			r.live[id] = true
			return fmt.Sprintf("ok id=%d", real)
		}
		if real != id {
			return fmt.Sprintf("err:id-mismatch:%d", real)
		}
		r.byID[id] = &series{id: id, name: t[3], tags: tags, key: key}
		r.live[id] = true
		return "ok"
	case len(t) == 2 && (t[0] == "x" || t[0] == "xi"):
		s := r.byID[uint64(h.Atoi(t[1]))]
		if s == nil {
			return "bad-op"
		}
		r.mark()
		if err := r.dropIndex(s); err != nil {
			return "err:drop"
		}
		if _, err := r.idx.DropMeasurementIfSeriesNotExist([]byte(s.name)); err != nil {
			return "err:dropm"
		}
		if t[0] == "x" {
			if _, err := r.sfile.DeleteSeriesID(s.id, true); err != nil {
				return "err:sfile"
			}
		}
		return "ok"
	case len(t) == 2 && (t[0] == "xm" || t[0] == "xmi"):
		if !okName(t[1]) {
			return "bad-op"
		}
		r.mark()
		var ss []*series
		for id := range r.live {
			if r.byID[id].name == t[1] {
				ss = append(ss, r.byID[id])
			}
		}
		sort.Slice(ss, func(i, j int) bool { return ss[i].id < ss[j].id })
		for _, s := range ss {
			if err := r.dropIndex(s); err != nil {
				return "err:drop"
			}
		}
		if _, err := r.idx.DropMeasurementIfSeriesNotExist([]byte(t[1])); err != nil {
			return "err:dropm"
		}
		if t[0] == "xm" {
			for _, s := range ss {
				if _, err := r.sfile.DeleteSeriesID(s.id, true); err != nil {
					return "err:sfile"
				}
			}
		}
		return "ok"
	case len(t) == 2 && t[0] == "roll":
		p := r.part(t[1])
		if p == nil {
			return "bad-op"
		}
		if err := tsi1.VerifRoll(p); err != nil {
			return "err:roll"
		}
		if r.before != nil {
			r.before[h.Atoi(t[1])] = 0
		}
		return "ok"
	case len(t) == 2 && t[0] == "clog":
		p := r.part(t[1])
		if p == nil {
			return "bad-op"
		}
		tsi1.VerifCompactOldestLog(p)
		return "ok"
	case len(t) == 3 && t[0] == "clvl":
		p := r.part(t[1])
		if p == nil {
			return "bad-op"
		}
		tsi1.VerifCompactLevel(p, int(h.Atoi(t[2])))
		return "ok"
	case len(t) == 1 && t[0] == "bg":
		r.idx.EnableCompactions()
		r.idx.Compact()
		r.settle()
		r.idx.DisableCompactions()
		r.idx.Wait()
		return "ok"
	case len(t) == 1 && t[0] == "reopen":
		r.closeAll()
		if err := r.open(); err != nil {
			r.err = err
			return "err:open"
		}
		return "ok"
	case len(t) == 4 && t[0] == "crash":
		pn, err := strconv.Atoi(t[1])
		if err != nil || pn < 0 || uint64(pn) >= r.partN {
			return "bad-op"
		}
		k, extra := int(h.Atoi(t[2])), int(h.Atoi(t[3]))
		path := tsi1.VerifActiveLogPath(r.idx.PartitionAt(pn))
		logical := tsi1.VerifActiveLogSize(r.idx.PartitionAt(pn))
		r.closeAll()
		data, err := os.ReadFile(path)
		if err != nil {
			return "err:read"
		}
		if int64(len(data)) > logical { // stale bytes of an earlier torn tail beyond the log's end
			data = data[:logical]
		}
		off, n := 0, 0
		if r.before != nil {
			off = int(r.before[pn])
		}
		if off > len(data) {
			off = len(data)
		}
		for n < k && off < len(data) {
			var e tsi1.LogEntry
			if err := e.UnmarshalBinary(data[off:]); err != nil {
				break
			}
			off += e.Size
			n++
		}
		cut := off
		if off < len(data) {
			var e tsi1.LogEntry
			if err := e.UnmarshalBinary(data[off:]); err == nil {
				if extra >= e.Size {
					extra = e.Size - 1
				}
				cut = off + extra
			}
		}
		if err := os.Truncate(path, int64(cut)); err != nil {
			return "err:truncate"
		}
		if err := r.open(); err != nil {
			r.err = err
			return "err:open"
		}
		// the harness's notion of "live in the index" is rebuilt by the generator's ops only
		return "ok"
	case len(t) == 1 && t[0] == "ms":
		return drainNames(r.idx.MeasurementIterator())
	case len(t) == 2 && t[0] == "tk":
		return drainNames(r.idx.TagKeyIterator([]byte(t[1])))
	case len(t) == 3 && t[0] == "tv":
		return drainNames(r.idx.TagValueIterator([]byte(t[1]), []byte(t[2])))
	case len(t) == 2 && t[0] == "sm":
		return drainIDs(r.indexSet().MeasurementSeriesIDIterator([]byte(t[1])))
	case len(t) == 3 && t[0] == "sk":
		return drainIDs(r.indexSet().TagKeySeriesIDIterator([]byte(t[1]), []byte(t[2])))
	case len(t) == 4 && t[0] == "sv":
		return drainIDs(r.indexSet().TagValueSeriesIDIterator([]byte(t[1]), []byte(t[2]), []byte(t[3])))
	case len(t) == 2 && t[0] == "rsm":
		return drainIDs(r.idx.MeasurementSeriesIDIterator([]byte(t[1])))
	case len(t) == 3 && t[0] == "rsk":
		return drainIDs(r.idx.TagKeySeriesIDIterator([]byte(t[1]), []byte(t[2])))
	case len(t) == 4 && t[0] == "rsv":
		return drainIDs(r.idx.TagValueSeriesIDIterator([]byte(t[1]), []byte(t[2]), []byte(t[3])))
	case len(t) == 2 && t[0] == "files":
		p := r.part(t[1])
		if p == nil {
			return "bad-op"
		}
		return "files " + h.Join(tsi1.VerifFileNames(p))
	}
	return "bad-op"
}

// ---------------------------------------------------------------- generator

// genSeries is one series of the generator's universe.
type genSeries struct {
	name string
	tags [][2]string // sorted by key
}

func (g genSeries) tagsTok() string {
	var parts []string
	for _, kv := range g.tags {
		parts = append(parts, kv[0]+"="+kv[1])
	}
	return h.Join(parts)
}

func (g genSeries) mtags() models.Tags {
	var t models.Tags
	for _, kv := range g.tags {
		t = append(t, models.NewTag([]byte(kv[0]), []byte(kv[1])))
	}
	return t
}

// mirror predicts what the series file and the index's partitioning will answer.
type mirror struct {
	partN   uint64
	seq     [tsdb.SeriesFilePartitionN]uint64 // creations so far per series-file partition
	idOf    map[string]uint64                 // series key -> id of the live (undeleted) series
	known   []uint64
	nameOf  map[uint64]string
	deleted map[uint64]bool
	ops     []string
}

func newMirror(partN uint64) *mirror {
	return &mirror{partN: partN, idOf: map[string]uint64{}, nameOf: map[uint64]string{}, deleted: map[uint64]bool{}}
}

func (m *mirror) emit(op string) { m.ops = append(m.ops, op) }

func (m *mirror) create(g genSeries) uint64 {
	tags := g.mtags()
	skey := string(tsdb.AppendSeriesKey(nil, []byte(g.name), tags))
	id, ok := m.idOf[skey]
	if !ok {
		p := xxhash.Sum64([]byte(skey)) % tsdb.SeriesFilePartitionN
		id = (p + 1) + tsdb.SeriesFilePartitionN*m.seq[p]
		m.seq[p]++
		m.idOf[skey] = id
		m.known = append(m.known, id)
		m.nameOf[id] = g.name
	}
	part := xxhash.Sum64(models.MakeKey([]byte(g.name), tags)) & (m.partN - 1)
	m.emit(fmt.Sprintf("c %d %d %s %s", id, part, g.name, g.tagsTok()))
	return id
}

// sfileDelete: the series file forgets the key (a re-creation gets a new id).
func (m *mirror) sfileDelete(id uint64) {
	m.deleted[id] = true
	for k, v := range m.idOf {
		if v == id {
			delete(m.idOf, k)
		}
	}
}

func (m *mirror) drop(id uint64) { m.emit(fmt.Sprintf("x %d", id)); m.sfileDelete(id) }

// crashCase: a history, then one operation in flight when the process dies: only a prefix
// of the log entries it appended survives (cut at entry k plus `extra` bytes).
func crashCase(r *h.Rand, uni []genSeries, k, extra int) []string {
	m := newMirror(1)
	m.emit("cfg 1")
	tracked := map[uint64]bool{}
	var created []uint64
	byID := map[uint64]genSeries{}
	mk := func() {
		g := h.Pick(r, uni[:9]) // measurement m only: drops of the last series matter
		if r.Chance(0.2) {
			g = h.Pick(r, uni)
		}
		id := m.create(g)
		tracked[id] = true
		created = append(created, id)
		byID[id] = g
	}
	for i, n := 0, 1+r.Intn(3); i < n; i++ {
		mk()
		if r.Chance(0.3) {
			m.structural(r)
		}
	}
	if r.Chance(0.3) && len(created) > 1 {
		id := created[0]
		m.drop(id)
		delete(tracked, id)
	}
	m.sweep()
	// the operation in flight
	var inflight uint64
	switch x := r.Intn(10); {
	case x < 3:
		mk()
	case x < 8:
		var live []uint64
		for id := range tracked {
			live = append(live, id)
		}
		sort.Slice(live, func(i, j int) bool { return live[i] < live[j] })
		if len(live) == 0 {
			mk()
		} else {
			inflight = h.Pick(r, live)
			m.emit(fmt.Sprintf("xi %d", inflight))
			delete(tracked, inflight)
		}
	default:
		m.emit("xmi m")
		for id := range tracked {
			if m.nameOf[id] == "m" {
				delete(tracked, id)
			}
		}
	}
	m.emit(fmt.Sprintf("crash 0 %d %d", k, extra))
	m.sweep()
	// life goes on: the same or other series are written again, files are rolled and compacted
	for i, n := 0, r.Intn(4); i < n; i++ {
		switch r.Intn(4) {
		case 0:
			if inflight != 0 {
				m.create(byID[inflight])
			} else {
				mk()
			}
		case 1:
			mk()
		default:
			m.structural(r)
		}
		m.sweep()
	}
	return m.ops
}

func (m *mirror) dropMeasurement(name string, tracked map[uint64]bool) {
	m.emit("xm " + name)
	for id := range tracked {
		if m.nameOf[id] == name {
			m.sfileDelete(id)
			delete(tracked, id)
		}
	}
}

var (
	genNames  = []string{"m", "n"}
	genKeys   = []string{"k1", "k2"}
	genValues = []string{"a", "b"}
)

func universe() []genSeries {
	var out []genSeries
	for _, n := range genNames {
		sets := [][][2]string{{}}
		for _, k := range genKeys {
			var next [][][2]string
			for _, base := range sets {
				next = append(next, base)
				for _, v := range genValues {
					next = append(next, append(append([][2]string{}, base...), [2]string{k, v}))
				}
			}
			sets = next
		}
		for _, ts := range sets {
			out = append(out, genSeries{name: n, tags: ts})
		}
	}
	return out
}

// sweep: every view over the universe of names / keys / values.
func (m *mirror) sweep() {
	m.emit("ms")
	for _, n := range genNames {
		m.emit("tk " + n)
		m.emit("sm " + n)
		for _, k := range genKeys {
			m.emit("tv " + n + " " + k)
			m.emit("sk " + n + " " + k)
			for _, v := range genValues {
				m.emit("sv " + n + " " + k + " " + v)
			}
		}
	}
}

// structural: a roll / compaction / reopen step that must not change any view.
func (m *mirror) structural(r *h.Rand) {
	p := r.Intn(int(m.partN))
	switch r.Intn(6) {
	case 0:
		m.emit(fmt.Sprintf("roll %d", p))
	case 1:
		m.emit(fmt.Sprintf("roll %d", p))
		m.emit(fmt.Sprintf("clog %d", p))
	case 2:
		m.emit(fmt.Sprintf("clog %d", p))
	case 3:
		m.emit(fmt.Sprintf("clvl %d %d", p, 1+r.Intn(2)))
	case 4:
		m.emit("reopen")
	case 5:
		if m.partN > 1 { // all partitions
			for q := 0; q < int(m.partN); q++ {
				m.emit(fmt.Sprintf("roll %d", q))
			}
		} else {
			m.emit("roll 0")
			m.emit("clog 0")
			m.emit("clvl 0 1")
		}
	}
}

func gen(r *h.Rand, tier string, emit func([]string)) {
	uni := universe()
	// a small alphabet for the exhaustive part: three series of m (two sharing a key), one of n
	small := []genSeries{
		{name: "m", tags: [][2]string{{"k1", "a"}}},
		{name: "m", tags: [][2]string{{"k1", "b"}}},
		{name: "m", tags: [][2]string{{"k1", "a"}, {"k2", "b"}}},
		{name: "n", tags: [][2]string{{"k1", "a"}}},
	}
	// mutating alphabet: create i, drop i, drop measurement m
	nAlpha := 2*len(small) + 1
	maxLen := 3
	if tier == "thorough" {
		maxLen = 4
	}
	var seqs [][]int
	var rec func(prefix []int)
	rec = func(prefix []int) {
		if len(prefix) > 0 {
			seqs = append(seqs, append([]int{}, prefix...))
		}
		if len(prefix) == maxLen {
			return
		}
		for a := 0; a < nAlpha; a++ {
			rec(append(prefix, a))
		}
	}
	rec(nil)
	for _, sq := range seqs {
		partN := uint64(1)
		if r.Chance(0.08) {
			partN = 8
		}
		m := newMirror(partN)
		m.emit(fmt.Sprintf("cfg %d", partN))
		ids := map[int]uint64{}
		tracked := map[uint64]bool{}
		valid := true
		for _, a := range sq {
			switch {
			case a < len(small):
				id := m.create(small[a])
				ids[a] = id
				tracked[id] = true
			case a < 2*len(small):
				id, ok := ids[a-len(small)]
				if !ok {
					valid = false
				} else {
					m.drop(id)
					delete(tracked, id)
				}
			default:
				m.dropMeasurement("m", tracked)
			}
			if !valid {
				break
			}
			m.sweep()
			if r.Chance(0.7) {
				m.structural(r)
				m.sweep()
			}
		}
		if valid {
			emit(m.ops)
		}
	}
	// random longer histories over the full universe
	nRandom := 100
	if tier == "thorough" {
		nRandom = 1500
	}
	for c := 0; c < nRandom; c++ {
		partN := uint64(1)
		if r.Chance(0.25) {
			partN = 8
		}
		m := newMirror(partN)
		m.emit(fmt.Sprintf("cfg %d", partN))
		tracked := map[uint64]bool{}
		var everCreated []uint64
		steps := 8 + r.Intn(12)
		for i := 0; i < steps; i++ {
			switch x := r.Intn(100); {
			case x < 45 || len(everCreated) == 0:
				id := m.create(h.Pick(r, uni))
				tracked[id] = true
				everCreated = append(everCreated, id)
			case x < 65:
				id := h.Pick(r, everCreated)
				m.drop(id)
				delete(tracked, id)
			case x < 72:
				m.dropMeasurement(h.Pick(r, genNames), tracked)
			case x < 78 && c%3 == 0:
				// shard-local drop: the series stays in the series file (another shard holds it)
				id := h.Pick(r, everCreated)
				if !m.deleted[id] {
					m.emit(fmt.Sprintf("xi %d", id))
					delete(tracked, id)
				}
			default:
				m.structural(r)
			}
			if r.Chance(0.6) {
				m.sweep()
			}
		}
		m.sweep()
		emit(m.ops)
	}
	// crashes while an operation is in flight: every entry boundary and bytes inside entries
	nCrash := 4
	if tier == "thorough" {
		nCrash = 40
	}
	for k := 0; k <= 6; k++ {
		for _, extra := range []int{0, 1, 5, 11} {
			for c := 0; c < nCrash; c++ {
				emit(crashCase(r, uni, k, extra))
			}
		}
	}
	// cuts inside multi-byte varints (series ids >= 128, 130-byte names)
	allBytes := func(n int) []int {
		var a []int
		for i := 0; i < n; i++ {
			a = append(a, i)
		}
		return a
	}
	emit(bigIDCase(r, allBytes(10)))
	emit(bigIDCase(r, allBytes(10)))
	// entry sizes with 130-byte name/key/value: key tombstone 271, value tombstone 403, measurement 141
	interesting := [][2]int{}
	for _, k := range []int{0, 3} { // series tombstones (small id): every byte
		for e := 0; e < 9; e++ {
			interesting = append(interesting, [2]int{k, e})
		}
	}
	for _, e := range []int{1, 2, 3, 4, 70, 133, 134, 135, 136, 137, 200, 265, 266, 267, 268, 269, 270} {
		interesting = append(interesting, [2]int{1, e})
	}
	for _, e := range []int{1, 2, 3, 4, 134, 135, 136, 266, 267, 268, 269, 300, 398, 399, 400, 401, 402} {
		interesting = append(interesting, [2]int{2, e})
	}
	for _, e := range []int{1, 2, 3, 4, 5, 100, 133, 134, 135, 136, 137, 138, 139, 140} {
		interesting = append(interesting, [2]int{4, e})
	}
	if tier == "thorough" {
		interesting = nil
		for k, size := range []int{9, 271, 403, 9, 141} {
			for e := 0; e < size; e++ {
				interesting = append(interesting, [2]int{k, e})
			}
		}
	}
	for i := 0; i < len(interesting); i += 12 {
		j := i + 12
		if j > len(interesting) {
			j = len(interesting)
		}
		emit(longNameCase(r, interesting[i:j]))
	}
}


// ---- torn multi-byte varints ------------------------------------------------------------
// A log entry is flag, uvarint(series id), uvarint(len)+name, uvarint(len)+key,
// uvarint(len)+value, crc32. With ids < 128 and short names every varint is one byte, and a
// cut can never fall inside one. The two generators below make 2-byte varints and cut the
// log at chosen (thorough: all) bytes of the entries of the operation in flight: the index
// must open again and show the prefix state.

func sfilePartition(g genSeries) uint64 {
	skey := tsdb.AppendSeriesKey(nil, []byte(g.name), g.mtags())
	return xxhash.Sum64(skey) % tsdb.SeriesFilePartitionN
}

// bigIDCase: 16 series of one series-file partition (ids up to 121+p), then series whose id
// needs two varint bytes, each created and torn at `extra` bytes (nothing of it survives).
func bigIDCase(r *h.Rand, extras []int) []string {
	m := newMirror(1)
	m.emit("cfg 1")
	target := uint64(r.Intn(int(tsdb.SeriesFilePartitionN)))
	next := 0
	pick := func() genSeries {
		for {
			g := genSeries{name: "m", tags: [][2]string{{"k1", fmt.Sprintf("v%d", next)}}}
			next++
			if sfilePartition(g) == target {
				return g
			}
		}
	}
	for i := 0; i < 16; i++ {
		m.create(pick())
	}
	if r.Bool() {
		m.emit("roll 0")
		m.emit("clog 0")
	}
	m.emit("sm m")
	for _, extra := range extras {
		id := m.create(pick())
		if id < 128 {
			panic("bigIDCase: id below 128")
		}
		m.emit(fmt.Sprintf("crash 0 0 %d", extra))
		m.emit("ms")
		m.emit("sm m")
		m.emit("tk m")
	}
	// and one that stays
	m.create(pick())
	m.emit("reopen")
	m.emit("sm m")
	m.emit("sk m k1")
	return m.ops
}

var (
	longName  = "m" + strings.Repeat("x", 129)
	longKey   = "k" + strings.Repeat("y", 129)
	longValue = "v" + strings.Repeat("z", 129)
)

// longNameCase: a measurement / tag key / tag value of 130 bytes each: the tombstone entries
// of its drop carry 2-byte length varints. The index half of the drop is torn inside entry
// number k (0 series tombstone, 1 tag-key, 2 tag-value, 3 series, 4 measurement) at `extra`.
func longNameCase(r *h.Rand, cuts [][2]int) []string {
	m := newMirror(1)
	m.emit("cfg 1")
	g := genSeries{name: longName, tags: [][2]string{{longKey, longValue}}}
	other := genSeries{name: "m", tags: [][2]string{{"k1", "a"}}}
	m.create(other)
	for _, c := range cuts {
		id := m.create(g)
		m.emit(fmt.Sprintf("xi %d", id))
		m.emit(fmt.Sprintf("crash 0 %d %d", c[0], c[1]))
		m.emit("ms")
		m.emit("sm " + longName)
		m.emit("tk " + longName)
		m.emit("tv " + longName + " " + longKey)
		m.emit("sv " + longName + " " + longKey + " " + longValue)
		if r.Chance(0.3) {
			m.emit("roll 0")
			m.emit("clog 0")
		}
	}
	m.emit("sm m")
	return m.ops
}

// genBalanced emits the generator's cases in a strided order, so that the contiguous chunks the
// runner hands to parallel processes each get a mix of cheap and expensive cases.
func genBalanced(r *h.Rand, tier string, emit func([]string)) {
	var all [][]string
	gen(r, tier, func(ops []string) { all = append(all, ops) })
	const stride = 16
	for i := 0; i < stride; i++ {
		for j := i; j < len(all); j += stride {
			emit(all[j])
		}
	}
}

func main() {
	h.Main(h.Harness{Gen: genBalanced, NewCase: newRunner, OpTimeout: 5 * time.Minute})
}
