// Harness for C22: runs generated InfluxQL SELECT statements through the real
// influxql parser, query.Compile, Prepare and Select (influxql/query/select.go,
// compile.go, iterator*.go, call_iterator.go, cursor.go) over an in-memory
// ShardMapper / ShardGroup whose CreateIterator hands out per-series Float/Integer
// iterators built from the case's points — composed the way the storage engine
// composes them (tsm1.Engine.CreateIterator): one iterator per series restricted to
// [opt.StartTime, opt.EndTime] in opt order, each wrapped in query.NewCallIterator when
// opt.Expr is a call, then query.Iterators.Merge(opt).
//
//	case:  s <host> <i|f> <times> <values>     one series of measurement m, field v   -> ok
//	       q <hex query text> <tokens…>         run the query                          -> rows | err:<kind>
//
// The tokens after the hex text are the parsed statement re-serialised from the real
// parser's AST (produced in `gen`); `exec` only looks at the text.
//
//	rows:  <host|*>@<time>=<v>;<v>…  joined by ","   ("-" = no rows), v = i<int> | f<hex64> | n (null)
package main

import (
	"context"
	"fmt"
	"math"
	"sort"
	"strconv"
	"strings"
	"time"

	"github.com/influxdata/influxdb/v2/influxql/query"
	"github.com/influxdata/influxql"
	"verif/harness/h"
)

const nowNanos = 1_000_000 // CompileOptions.Now: the upper bound of GROUP BY time queries without one

// ---------------------------------------------------------------- in-memory storage

type memSeries struct {
	host  string
	isInt bool
	times []int64
	ivals []int64
	fvals []float64
}

type memFloatIterator struct {
	pts []query.FloatPoint
	i   int
}

func (it *memFloatIterator) Stats() query.IteratorStats { return query.IteratorStats{} }
func (it *memFloatIterator) Close() error               { return nil }
func (it *memFloatIterator) Next() (*query.FloatPoint, error) {
	if it.i >= len(it.pts) {
		return nil, nil
	}
	p := &it.pts[it.i]
	it.i++
	return p, nil
}

type memIntegerIterator struct {
	pts []query.IntegerPoint
	i   int
}

func (it *memIntegerIterator) Stats() query.IteratorStats { return query.IteratorStats{} }
func (it *memIntegerIterator) Close() error               { return nil }
func (it *memIntegerIterator) Next() (*query.IntegerPoint, error) {
	if it.i >= len(it.pts) {
		return nil, nil
	}
	p := &it.pts[it.i]
	it.i++
	return p, nil
}

type shardGroup struct {
	series []memSeries
	isInt  bool
}

func (sg *shardGroup) Close() error { return nil }
func (sg *shardGroup) IteratorCost(ctx context.Context, m *influxql.Measurement, opt query.IteratorOptions) (query.IteratorCost, error) {
	return query.IteratorCost{}, nil
}
func (sg *shardGroup) fieldType() influxql.DataType {
	if sg.isInt {
		return influxql.Integer
	}
	return influxql.Float
}
func (sg *shardGroup) FieldDimensions(ctx context.Context, m *influxql.Measurement) (map[string]influxql.DataType, map[string]struct{}, error) {
	if m.Name != "m" {
		return map[string]influxql.DataType{}, map[string]struct{}{}, nil
	}
	return map[string]influxql.DataType{"v": sg.fieldType()}, map[string]struct{}{"host": {}}, nil
}
func (sg *shardGroup) MapType(ctx context.Context, m *influxql.Measurement, field string) influxql.DataType {
	if m.Name != "m" {
		return influxql.Unknown
	}
	switch field {
	case "v":
		return sg.fieldType()
	case "host":
		return influxql.Tag
	}
	return influxql.Unknown
}

// the series of one measurement in series-key order (descending when !opt.Ascending,
// as Engine.createVarRefIterator reverses its tag sets)
func (sg *shardGroup) ordered(asc bool) []memSeries {
	out := append([]memSeries(nil), sg.series...)
	sort.SliceStable(out, func(i, j int) bool {
		if asc {
			return out[i].host < out[j].host
		}
		return out[i].host > out[j].host
	})
	return out
}

func (sg *shardGroup) CreateIterator(ctx context.Context, m *influxql.Measurement, opt query.IteratorOptions) (query.Iterator, error) {
	if m.Name != "m" {
		return nil, nil
	}
	if opt.Condition != nil {
		return nil, fmt.Errorf("harness: field/tag conditions are outside the subset")
	}
	dims := opt.GetDimensions()
	var itrs []query.Iterator
	for _, s := range sg.ordered(opt.Ascending) {
		full := query.NewTags(map[string]string{"host": s.host})
		tags := full.Subset(dims)
		idx := make([]int, 0, len(s.times))
		for i, t := range s.times {
			if t >= opt.StartTime && t <= opt.EndTime {
				idx = append(idx, i)
			}
		}
		if !opt.Ascending {
			for a, b := 0, len(idx)-1; a < b; a, b = a+1, b-1 {
				idx[a], idx[b] = idx[b], idx[a]
			}
		}
		auxOf := func(i int) []interface{} {
			if len(opt.Aux) == 0 {
				return nil
			}
			aux := make([]interface{}, len(opt.Aux))
			for k, ref := range opt.Aux {
				switch ref.Val {
				case "v":
					if s.isInt {
						aux[k] = s.ivals[i]
					} else {
						aux[k] = s.fvals[i]
					}
				case "host":
					aux[k] = s.host
				}
			}
			return aux
		}
		_, isRef := opt.Expr.(*influxql.VarRef)
		_, isCall := opt.Expr.(*influxql.Call)
		var itr query.Iterator
		if s.isInt && (isRef || isCall) {
			pts := make([]query.IntegerPoint, 0, len(idx))
			for _, i := range idx {
				pts = append(pts, query.IntegerPoint{Name: "m", Tags: tags, Time: s.times[i], Value: s.ivals[i], Aux: auxOf(i)})
			}
			itr = &memIntegerIterator{pts: pts}
		} else {
			// float field, or auxiliary fields only (the engine uses a float iterator then)
			pts := make([]query.FloatPoint, 0, len(idx))
			for _, i := range idx {
				p := query.FloatPoint{Name: "m", Tags: tags, Time: s.times[i], Aux: auxOf(i)}
				if isRef || isCall {
					p.Value = s.fvals[i]
				} else {
					p.Value = math.NaN()
				}
				pts = append(pts, p)
			}
			itr = &memFloatIterator{pts: pts}
		}
		if isCall {
			ci, err := query.NewCallIterator(itr, opt)
			if err != nil {
				return nil, err
			}
			itr = ci
		}
		itrs = append(itrs, itr)
	}
	if len(itrs) == 0 {
		return nil, nil
	}
	return query.Iterators(itrs).Merge(opt)
}

type shardMapper struct{ sg *shardGroup }

func (sm *shardMapper) MapShards(ctx context.Context, sources influxql.Sources, t influxql.TimeRange, opt query.SelectOptions) (query.ShardGroup, error) {
	return sm.sg, nil
}

// ---------------------------------------------------------------- the case runner

type runner struct {
	series []memSeries
	real   *realEnv // a tsdb.Shard on disk (cases made of S / Q ops)
}

func (r *runner) Close() {
	if r.real != nil {
		r.real.close()
	}
}

func renderVal(v interface{}) string {
	switch v := v.(type) {
	case nil:
		return "n"
	case int64:
		return "i" + strconv.FormatInt(v, 10)
	case float64:
		if math.IsNaN(v) {
			return "f" + h.Hex64(0x7ff8000000000000)
		}
		return "f" + h.Hex64(math.Float64bits(v))
	case uint64:
		return "u" + strconv.FormatUint(v, 10)
	default:
		if v == query.NullFloat {
			return "nullfloat"
		}
		return fmt.Sprintf("?%T", v)
	}
}

func errKind(err error) string {
	msg := err.Error()
	switch {
	case strings.Contains(msg, "mixing aggregate and non-aggregate"):
		return "err:mixing"
	case strings.Contains(msg, "GROUP BY requires at least one aggregate function"):
		return "err:group-by-needs-aggregate"
	case strings.Contains(msg, "fill(none) must be used with a function"):
		return "err:fill-none-needs-function"
	case strings.Contains(msg, "at least 1 non-time field must be queried"):
		return "err:no-field"
	}
	return "err:other:" + strings.Map(func(r rune) rune {
		if r == ' ' || r == '\t' || r == '\n' {
			return '_'
		}
		return r
	}, msg)
}

func (r *runner) Op(t []string) string {
	if len(t) == 0 {
		return "bad-op"
	}
	switch t[0] {
	case "s":
		if len(t) != 5 || (t[2] != "i" && t[2] != "f") {
			return "bad-op"
		}
		s := memSeries{host: t[1], isInt: t[2] == "i"}
		func() {
			defer func() { recover() }()
			s.times = h.ParseInts(t[3])
		}()
		if s.isInt {
			func() {
				defer func() { recover() }()
				s.ivals = h.ParseInts(t[4])
			}()
			if len(s.ivals) != len(s.times) {
				return "bad-op"
			}
		} else {
			for _, tok := range h.Split(t[4]) {
				v, err := strconv.ParseUint(tok, 16, 64)
				if err != nil || len(tok) != 16 {
					return "bad-op"
				}
				s.fvals = append(s.fvals, math.Float64frombits(v))
			}
			if len(s.fvals) != len(s.times) {
				return "bad-op"
			}
		}
		for i := 1; i < len(s.times); i++ {
			if s.times[i] <= s.times[i-1] {
				return "bad-op" // a stored series has strictly increasing timestamps
			}
		}
		for _, o := range r.series {
			if o.host == s.host || o.isInt != s.isInt {
				return "bad-op"
			}
		}
		r.series = append(r.series, s)
		return "ok"
	case "q":
		if len(t) < 2 {
			return "bad-op"
		}
		text, err := h.UnHex(t[1])
		if err != nil {
			return "bad-op"
		}
		if r.real != nil {
			return "bad-op"
		}
		sg := &shardGroup{series: r.series, isInt: len(r.series) > 0 && r.series[0].isInt}
		return runQuery(string(text), &shardMapper{sg: sg})
	case "S":
		if len(r.series) > 0 {
			return "bad-op"
		}
		return r.realSeries(t)
	case "Q":
		if len(t) < 2 || len(r.series) > 0 {
			return "bad-op"
		}
		text, err := h.UnHex(t[1])
		if err != nil {
			return "bad-op"
		}
		if r.real == nil {
			env, err := newRealEnv()
			if err != nil {
				return "err:setup"
			}
			r.real = env
		}
		return runQuery(string(text), &realMapper{env: r.real})
	}
	return "bad-op"
}

func runQuery(text string, sm query.ShardMapper) string {
	st, err := influxql.ParseStatement(text)
	if err != nil {
		return "err:parse"
	}
	stmt, ok := st.(*influxql.SelectStatement)
	if !ok {
		return "err:parse"
	}
	stmt.OmitTime = true
	c, err := query.Compile(stmt, query.CompileOptions{Now: time.Unix(0, nowNanos).UTC()})
	if err != nil {
		return errKind(err)
	}
	p, err := c.Prepare(context.Background(), sm, query.SelectOptions{})
	if err != nil {
		return errKind(err)
	}
	defer p.Close()
	cur, err := p.Select(context.Background())
	if err != nil {
		return errKind(err)
	}
	defer cur.Close()
	var rows []string
	for {
		var row query.Row
		if !cur.Scan(&row) {
			break
		}
		host := "*"
		if v, ok := row.Series.Tags.KeyValues()["host"]; ok {
			host = v
		}
		vals := make([]string, len(row.Values))
		for i, v := range row.Values {
			vals[i] = renderVal(v)
		}
		rows = append(rows, host+"@"+strconv.FormatInt(row.Time, 10)+"="+strings.Join(vals, ";"))
		if len(rows) > 100000 {
			return "err:too-many-rows"
		}
	}
	if err := cur.Err(); err != nil {
		return errKind(err)
	}
	if len(rows) == 0 {
		return "-"
	}
	return strings.Join(rows, ",")
}

// ---------------------------------------------------------------- generator

type qspec struct {
	calls   []string // empty = raw `SELECT v`
	hasMin  bool
	tmin    int64
	minIncl bool
	hasMax  bool
	tmax    int64
	maxIncl bool
	dur     int64 // 0 = no GROUP BY time
	off     int64
	hasOff  bool
	byHost  bool
	fill    string // "" | none | null | previous | <number>
	desc    bool
	limit   int64
	offset  int64
	condOp  string // "" | > | >= | < | <=   (WHERE u <op> condK)
	condK   int64
	aux     bool // SELECT …, u
}

func (q qspec) text() string {
	var b strings.Builder
	b.WriteString("SELECT ")
	if len(q.calls) == 0 {
		b.WriteString("v")
	} else {
		for i, c := range q.calls {
			if i > 0 {
				b.WriteString(", ")
			}
			b.WriteString(c + "(v)")
		}
	}
	if q.aux {
		b.WriteString(", u")
	}
	b.WriteString(" FROM m")
	var conds []string
	if q.condOp != "" {
		conds = append(conds, fmt.Sprintf("u %s %d", q.condOp, q.condK))
	}
	if q.hasMin {
		op := ">"
		if q.minIncl {
			op = ">="
		}
		conds = append(conds, fmt.Sprintf("time %s %d", op, q.tmin))
	}
	if q.hasMax {
		op := "<"
		if q.maxIncl {
			op = "<="
		}
		conds = append(conds, fmt.Sprintf("time %s %d", op, q.tmax))
	}
	if len(conds) > 0 {
		b.WriteString(" WHERE " + strings.Join(conds, " AND "))
	}
	var dims []string
	if q.dur > 0 {
		if q.hasOff {
			dims = append(dims, fmt.Sprintf("time(%dns, %dns)", q.dur, q.off))
		} else {
			dims = append(dims, fmt.Sprintf("time(%dns)", q.dur))
		}
	}
	if q.byHost {
		dims = append(dims, "host")
	}
	if len(dims) > 0 {
		b.WriteString(" GROUP BY " + strings.Join(dims, ", "))
	}
	if q.fill != "" {
		b.WriteString(" fill(" + q.fill + ")")
	}
	if q.desc {
		b.WriteString(" ORDER BY time DESC")
	}
	if q.limit > 0 {
		b.WriteString(fmt.Sprintf(" LIMIT %d", q.limit))
	}
	if q.offset > 0 {
		b.WriteString(fmt.Sprintf(" OFFSET %d", q.offset))
	}
	return b.String()
}

// tokens re-serialises what the REAL parser made of the text:
//
//	<calls|raw> <tmin|-> <tmax|-> <dur> <off> <byHost> <fill> <fillvalue|-> <desc> <limit> <offset>
//
// tmin/tmax are the inclusive nanosecond bounds influxql.ConditionExpr extracts from
// the parsed WHERE clause.
func tokens(text string) (string, bool) {
	main, cond, aux, ok := tokensEx(text)
	if !ok || cond != "-" || aux {
		return "", false
	}
	return main, true
}

// tokensEx additionally reports a `u <op> k` field condition ("-" = none, else gt:k …) and
// whether `u` is selected as an auxiliary field after the calls.
func tokensEx(text string) (string, string, bool, bool) {
	main, cond, aux, ok := tokensRaw(text)
	return main, cond, aux, ok
}

func tokensRaw(text string) (mainTok string, condTok string, aux bool, ok bool) {
	fail := func() (string, string, bool, bool) { return "", "", false, false }
	mainTok, condTok = "", "-"
	s, okk := tokensInner(text, &condTok, &aux)
	if !okk {
		return fail()
	}
	return s, condTok, aux, true
}

func tokensInner(text string, condTok *string, auxOut *bool) (string, bool) {
	st, err := influxql.ParseStatement(text)
	if err != nil {
		return "", false
	}
	stmt, ok := st.(*influxql.SelectStatement)
	if !ok {
		return "", false
	}
	var calls []string
	raw := 0
	for fi, f := range stmt.Fields {
		switch e := f.Expr.(type) {
		case *influxql.Call:
			if len(e.Args) != 1 {
				return "", false
			}
			if r, ok := e.Args[0].(*influxql.VarRef); !ok || r.Val != "v" {
				return "", false
			}
			calls = append(calls, e.Name)
		case *influxql.VarRef:
			if e.Val == "u" && fi == len(stmt.Fields)-1 && fi > 0 {
				*auxOut = true
				continue
			}
			if e.Val != "v" {
				return "", false
			}
			raw++
		default:
			return "", false
		}
	}
	fieldTok := h.Join(calls)
	if raw > 0 {
		if len(calls) > 0 {
			return "", false
		} else {
			fieldTok = "raw"
		}
	}
	valuer := influxql.NowValuer{Now: time.Unix(0, nowNanos).UTC()}
	cond, tr, err := influxql.ConditionExpr(stmt.Condition, &valuer)
	if err != nil {
		return "", false
	}
	if cond != nil {
		be, ok := cond.(*influxql.BinaryExpr)
		if !ok {
			return "", false
		}
		ref, ok1 := be.LHS.(*influxql.VarRef)
		lit, ok2 := be.RHS.(*influxql.IntegerLiteral)
		if !ok1 || !ok2 || ref.Val != "u" {
			return "", false
		}
		var op string
		switch be.Op {
		case influxql.GT:
			op = "gt"
		case influxql.GTE:
			op = "ge"
		case influxql.LT:
			op = "lt"
		case influxql.LTE:
			op = "le"
		default:
			return "", false
		}
		*condTok = op + ":" + strconv.FormatInt(lit.Val, 10)
	}
	tmin, tmax := "-", "-"
	if !tr.Min.IsZero() {
		tmin = strconv.FormatInt(tr.Min.UnixNano(), 10)
	}
	if !tr.Max.IsZero() {
		tmax = strconv.FormatInt(tr.Max.UnixNano(), 10)
	}
	dur, err := stmt.GroupByInterval()
	if err != nil {
		return "", false
	}
	off := time.Duration(0)
	if dur > 0 {
		off, err = stmt.GroupByOffset()
		if err != nil {
			return "", false
		}
	}
	byHost := false
	for _, d := range stmt.Dimensions {
		if r, ok := d.Expr.(*influxql.VarRef); ok {
			if r.Val != "host" {
				return "", false
			}
			byHost = true
		}
	}
	fill, fillv := "null", "-"
	switch stmt.Fill {
	case influxql.NullFill:
	case influxql.NoFill:
		fill = "none"
	case influxql.PreviousFill:
		fill = "previous"
	case influxql.NumberFill:
		fill = "value"
		switch v := stmt.FillValue.(type) {
		case int64:
			fillv = strconv.FormatInt(v, 10)
		case float64:
			if v != math.Trunc(v) {
				return "", false
			}
			fillv = strconv.FormatInt(int64(v), 10)
		default:
			return "", false
		}
	default:
		return "", false
	}
	return fmt.Sprintf("%s %s %s %d %d %s %s %s %s %d %d", fieldTok, tmin, tmax, int64(dur), int64(off), h.B(byHost),
		fill, fillv, h.B(!stmt.TimeAscending()), stmt.Limit, stmt.Offset), true
}

var aggs = []string{"count", "sum", "min", "max", "first", "last"}
var aggsMean = []string{"count", "sum", "mean", "mean", "min", "max", "first", "last"}

func genQuery(r *h.Rand, tspan int64, withMean bool) qspec {
	var q qspec
	agg := r.Chance(0.7)
	if agg {
		n := 1
		if r.Chance(0.3) {
			n = int(r.Range(2, 3))
		}
		for i := 0; i < n; i++ {
			if withMean {
				q.calls = append(q.calls, h.Pick(r, aggsMean))
			} else {
				q.calls = append(q.calls, h.Pick(r, aggs))
			}
		}
	}
	if r.Chance(0.75) {
		q.hasMin = true
		q.tmin = r.Range(-5, tspan/3)
		q.minIncl = r.Chance(0.7)
	}
	if r.Chance(0.75) {
		q.hasMax = true
		q.tmax = r.Range(tspan/2, tspan+10)
		q.maxIncl = r.Chance(0.3)
		if r.Chance(0.04) {
			q.tmax = q.tmin - r.Range(0, 3) // empty or one-instant range
		}
	}
	if agg && r.Chance(0.7) {
		q.dur = h.Pick(r, []int64{1, 2, 5, 7, 10, 10, 20, 50})
		if r.Chance(0.3) {
			q.hasOff = true
			q.off = r.Range(0, 2*q.dur)
		}
		// fill needs a bounded range to stay small
		if !(q.hasMin && q.hasMax) {
			if r.Chance(0.8) {
				q.hasMin, q.hasMax = true, true
				q.tmin, q.minIncl = r.Range(-5, tspan/3), true
				q.tmax, q.maxIncl = r.Range(tspan/2, tspan+10), false
			}
		}
		switch r.Intn(6) {
		case 0:
			q.fill = "none"
		case 1:
			q.fill = "null"
		case 2:
			q.fill = "previous"
		case 3:
			q.fill = strconv.FormatInt(r.Range(-3, 100), 10)
		}
		if !(q.hasMin && q.hasMax) && q.fill != "none" {
			q.fill = "none" // an unbounded filled range would produce millions of windows
		}
	} else if agg && r.Chance(0.2) {
		q.fill = h.Pick(r, []string{"none", "null", "previous", "0"})
	}
	q.byHost = r.Chance(0.35)
	q.desc = r.Chance(0.3)
	if r.Chance(0.35) {
		q.limit = r.Range(1, 5)
	}
	if r.Chance(0.2) {
		q.offset = r.Range(1, 3)
	}
	// a few statements the compiler must reject
	if r.Chance(0.03) {
		switch r.Intn(3) {
		case 0:
			q.calls = nil
			q.dur = 10
			q.fill = ""
		case 1:
			q.calls = nil
			q.dur = 0
			q.fill = "none"
		}
	}
	return q
}

func genCase(r *h.Rand, nq int) []string {
	var ops []string
	isInt := r.Chance(0.6)
	nser := int(r.Range(1, 3))
	if r.Chance(0.05) {
		nser = 0
	}
	// mean(): every partial mean the engine forms (per series, per merge level) is exact
	// when every value is a multiple of lcm(1..16) and the case holds at most 16 points;
	// then the engine's re-aggregated mean is the plain mean, bit for bit
	withMean := r.Chance(0.3)
	unit := int64(840)
	budget := 1000
	if withMean {
		unit = 720720
		budget = 16
	}
	tspan := h.Pick(r, []int64{20, 50, 100, 100, 200})
	hosts := []string{"a", "b", "c"}
	// timestamps are distinct across the series of the case: the order in which a
	// sorted merge emits equal (name, tags, time) points of different series is a
	// container/heap detail no semantics fixes
	used := map[int64]bool{}
	for s := 0; s < nser; s++ {
		n := int(r.Range(1, 14))
		if r.Chance(0.08) {
			n = 0
		}
		if n > budget {
			n = budget
		}
		budget -= n
		var times []int64
		for tries := 0; len(times) < n && tries < 200; tries++ {
			t := r.Range(0, tspan)
			if r.Chance(0.05) {
				t = -r.Range(1, 9)
			}
			if !used[t] {
				used[t] = true
				times = append(times, t)
			}
		}
		sort.Slice(times, func(i, j int) bool { return times[i] < times[j] })
		n = len(times)
		line := "s " + hosts[s] + " "
		if isInt {
			vals := make([]int64, n)
			for i := range vals {
				vals[i] = unit * r.Range(-5, 20)
				if r.Chance(0.2) && i > 0 {
					vals[i] = vals[i-1]
				}
			}
			line += "i " + h.Ints(times) + " " + h.Ints(vals)
		} else {
			vals := make([]string, n)
			for i := range vals {
				f := float64(unit) * float64(r.Range(-5, 20))
				if r.Chance(0.3) {
					f *= h.Pick(r, []float64{0.5, 0.25, 0.125})
				}
				vals[i] = h.Hex64(math.Float64bits(f))
			}
			line += "f " + h.Ints(times) + " " + h.Join(vals)
		}
		ops = append(ops, line)
	}
	for i := 0; i < nq; i++ {
		q := genQuery(r, tspan, withMean)
		text := q.text()
		toks, ok := tokens(text)
		if !ok {
			continue
		}
		ops = append(ops, "q "+h.HexS(text)+" "+toks)
	}
	return ops
}

func gen(r *h.Rand, tier string, emit func([]string)) {
	n, nq := 300, 25
	if tier == "thorough" {
		n, nq = 4000, 25
	}
	for i := 0; i < n; i++ {
		emit(genCase(r, nq))
	}
	// the same statements (plus WHERE on a second field and an aux field next to a
	// selector) over a REAL tsdb.Shard / tsm1 engine with sparse two-field series
	nReal := 40
	if tier == "thorough" {
		nReal = 400
	}
	emit(realDemoCase())
	for i := 0; i < nReal; i++ {
		emit(genRealCase(r, 20))
	}
	emit([]string{"s a i 1,1 1,2", "s a x 1 1", "q zz", "nosuch"})
}

func main() {
	h.Main(h.Harness{Gen: gen, NewCase: func() h.CaseRunner { return &runner{} }, OpTimeout: 20 * time.Second})
}
