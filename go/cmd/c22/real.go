// Second execution path of the C22 harness: the statements run through query.Select over
// a REAL tsdb.Shard (tsi1 index, tsm1 engine, WAL + cache, optionally snapshotted to a TSM
// file) in a temp dir — tsdb.Shards.CreateIterator → tsm1.Engine.CreateIterator → the
// generated tsm1 iterators and their buffered aux / condition cursors — instead of the
// in-memory shard group.  Series are SPARSE: a point carries field v, field u, or both.
package main

import (
	"context"
	"fmt"
	"math"
	"os"
	"path/filepath"
	"sort"
	"strconv"
	"time"

	"github.com/influxdata/influxdb/v2/influxql/query"
	"github.com/influxdata/influxdb/v2/models"
	"github.com/influxdata/influxdb/v2/tsdb"
	_ "github.com/influxdata/influxdb/v2/tsdb/engine"
	"github.com/influxdata/influxdb/v2/tsdb/engine/tsm1"
	_ "github.com/influxdata/influxdb/v2/tsdb/index"
	"github.com/influxdata/influxql"
	"verif/harness/h"
)

const realTimeout = 15 * time.Second

type idSets []*tsdb.SeriesIDSet

func (a idSets) ForEach(f func(ids *tsdb.SeriesIDSet)) error {
	for _, v := range a {
		f(v)
	}
	return nil
}

type realEnv struct {
	dir   string
	sfile *tsdb.SeriesFile
	sh    *tsdb.Shard
	hosts map[string]bool
	isInt bool
	typed bool
}

func withTimeout(f func() error) error {
	done := make(chan error, 1)
	go func() {
		defer func() {
			if r := recover(); r != nil {
				done <- fmt.Errorf("panic: %v", r)
			}
		}()
		done <- f()
	}()
	select {
	case err := <-done:
		return err
	case <-time.After(realTimeout):
		return fmt.Errorf("timeout")
	}
}

func newRealEnv() (*realEnv, error) {
	dir, err := os.MkdirTemp("", "verif-c22-")
	if err != nil {
		return nil, err
	}
	e := &realEnv{dir: dir, hosts: map[string]bool{}}
	e.sfile = tsdb.NewSeriesFile(filepath.Join(dir, "_series"))
	if err := withTimeout(func() error { return e.sfile.Open() }); err != nil {
		os.RemoveAll(dir)
		return nil, err
	}
	opt := tsdb.NewEngineOptions()
	opt.IndexVersion = tsdb.TSI1IndexName
	opt.Config.WALDir = filepath.Join(dir, "wal")
	opt.SeriesIDSets = idSets{}
	opt.MetricsDisabled = true
	sh := tsdb.NewShard(1, filepath.Join(dir, "data", "db0", "rp0", "1"), filepath.Join(dir, "wal", "db0", "rp0", "1"), e.sfile, opt)
	sh.CompactionDisabled = true
	sh.EnableOnOpen = true
	if err := withTimeout(func() error { return sh.Open(context.Background()) }); err != nil {
		e.sfile.Close()
		os.RemoveAll(dir)
		return nil, err
	}
	e.sh = sh
	return e, nil
}

func (e *realEnv) close() {
	if e.sh != nil {
		sh := e.sh
		withTimeout(func() error { return sh.Close() })
	}
	if e.sfile != nil {
		sf := e.sfile
		withTimeout(func() error { return sf.Close() })
	}
	os.RemoveAll(e.dir)
}

// S <host> <i|f> <times> <v values, x = none> <u values, x = none>
func (r *runner) realSeries(t []string) string {
	if len(t) != 6 || (t[2] != "i" && t[2] != "f") {
		return "bad-op"
	}
	isInt := t[2] == "i"
	var times []int64
	ok := func() (ok bool) {
		defer func() {
			if recover() != nil {
				ok = false
			}
		}()
		times = h.ParseInts(t[3])
		return true
	}()
	vs, us := h.Split(t[4]), h.Split(t[5])
	if !ok || len(vs) != len(times) || len(us) != len(times) {
		return "bad-op"
	}
	for i := 1; i < len(times); i++ {
		if times[i] <= times[i-1] {
			return "bad-op"
		}
	}
	parse := func(tok string) (interface{}, bool, bool) { // value, present, well-formed
		if tok == "x" {
			return nil, false, true
		}
		if isInt {
			v, err := strconv.ParseInt(tok, 10, 64)
			return v, true, err == nil
		}
		if len(tok) != 16 {
			return nil, false, false
		}
		b, err := strconv.ParseUint(tok, 16, 64)
		return math.Float64frombits(b), true, err == nil
	}
	type fieldsAt struct {
		t int64
		f models.Fields
	}
	var rows []fieldsAt
	for i := range times {
		v, hv, ok1 := parse(vs[i])
		u, hu, ok2 := parse(us[i])
		if !ok1 || !ok2 {
			return "bad-op"
		}
		f := models.Fields{}
		if hv {
			f["v"] = v
		}
		if hu {
			f["u"] = u
		}
		if len(f) > 0 {
			rows = append(rows, fieldsAt{times[i], f})
		}
	}
	if r.real == nil {
		env, err := newRealEnv()
		if err != nil {
			return "err:setup"
		}
		r.real = env
	}
	e := r.real
	if e.hosts[t[1]] || (e.typed && e.isInt != isInt) {
		return "bad-op"
	}
	e.hosts[t[1]], e.typed, e.isInt = true, true, isInt
	var pts []models.Point
	for _, row := range rows {
		p, err := models.NewPoint("m", models.NewTags(map[string]string{"host": t[1]}), row.f, time.Unix(0, row.t).UTC())
		if err != nil {
			return "err:point"
		}
		pts = append(pts, p)
	}
	if len(pts) > 0 {
		if err := withTimeout(func() error { return e.sh.WritePoints(context.Background(), pts) }); err != nil {
			return "err:write"
		}
	}
	// series whose first timestamp is even are snapshotted into a TSM file, the others
	// stay in the cache: both read paths of the engine's cursors are exercised
	if len(times) > 0 && times[0]%2 == 0 {
		if eng, err := e.sh.Engine(); err == nil {
			if te, ok := eng.(*tsm1.Engine); ok {
				if err := withTimeout(func() error { return te.WriteSnapshot() }); err != nil {
					return "err:snapshot"
				}
			}
		}
	}
	return "ok"
}

type realMapper struct{ env *realEnv }

func (m *realMapper) MapShards(ctx context.Context, sources influxql.Sources, t influxql.TimeRange, opt query.SelectOptions) (query.ShardGroup, error) {
	return &realGroup{shards: tsdb.Shards{m.env.sh}}, nil
}

type realGroup struct{ shards tsdb.Shards }

func (g *realGroup) CreateIterator(ctx context.Context, m *influxql.Measurement, opt query.IteratorOptions) (query.Iterator, error) {
	return g.shards.CreateIterator(ctx, m, opt)
}
func (g *realGroup) IteratorCost(ctx context.Context, m *influxql.Measurement, opt query.IteratorOptions) (query.IteratorCost, error) {
	return g.shards.IteratorCost(ctx, m.Name, opt)
}
func (g *realGroup) FieldDimensions(ctx context.Context, m *influxql.Measurement) (map[string]influxql.DataType, map[string]struct{}, error) {
	return g.shards.FieldDimensions([]string{m.Name})
}
func (g *realGroup) MapType(ctx context.Context, m *influxql.Measurement, field string) influxql.DataType {
	return g.shards.MapType(m.Name, field)
}
func (g *realGroup) Close() error { return nil }

// ---------------------------------------------------------------- generator

func realLine(host string, isInt bool, times []int64, vs, us []string) string {
	ty := "f"
	if isInt {
		ty = "i"
	}
	return "S " + host + " " + ty + " " + h.Ints(times) + " " + h.Join(vs) + " " + h.Join(us)
}

func fval(isInt bool, x float64) string {
	if isInt {
		return strconv.FormatInt(int64(x), 10)
	}
	return h.Hex64(math.Float64bits(x))
}

func realQueryLine(q qspec) (string, bool) {
	text := q.text()
	mainTok, condTok, aux, ok := tokensEx(text)
	if !ok || aux != q.aux {
		return "", false
	}
	return "Q " + h.HexS(text) + " " + mainTok + " " + condTok + " " + h.B(aux), true
}

// the coordinator's example: the condition / aux field has a point where the selected
// field has none
func realDemoCase() []string {
	ops := []string{realLine("A", false, []int64{10, 20, 30, 40},
		[]string{fval(false, 1), "x", fval(false, 3), fval(false, 4)},
		[]string{fval(false, 5), fval(false, 7), fval(false, 9), fval(false, 2)})}
	for _, q := range []qspec{
		{condOp: ">", condK: 1},
		{condOp: ">", condK: 1, desc: true},
		{condOp: ">", condK: 1, desc: true, limit: 1, offset: 2},
		{calls: []string{"last"}, condOp: ">", condK: 1, hasMax: true, tmax: 25},
		{calls: []string{"max"}, aux: true, hasMax: true, tmax: 25, desc: true},
		{calls: []string{"max"}, aux: true, hasMax: true, tmax: 25},
		{calls: []string{"first"}, aux: true, desc: true},
		{calls: []string{"count"}, condOp: "<=", condK: 7, desc: true, dur: 20, hasMin: true, tmin: 0, minIncl: true, hasMax: true, tmax: 50},
	} {
		if l, ok := realQueryLine(q); ok {
			ops = append(ops, l)
		}
	}
	return ops
}

func genRealCase(r *h.Rand, nq int) []string {
	var ops []string
	isInt := r.Chance(0.5)
	nser := int(r.Range(1, 3))
	tspan := h.Pick(r, []int64{30, 60, 100})
	hosts := []string{"a", "b", "c"}
	withMean := r.Chance(0.25)
	unit := int64(840)
	budget := 1000
	if withMean {
		unit, budget = 720720, 16
	}
	used := map[int64]bool{}
	for s := 0; s < nser; s++ {
		n := int(r.Range(2, 12))
		var times []int64
		for tries := 0; len(times) < n && tries < 200; tries++ {
			t := r.Range(0, tspan)
			if !used[t] {
				used[t] = true
				times = append(times, t)
			}
		}
		sort.Slice(times, func(i, j int) bool { return times[i] < times[j] })
		vs, us := make([]string, len(times)), make([]string, len(times))
		for i := range times {
			// sparse: v only, u only, or both
			kind := r.Intn(100)
			hasV, hasU := kind < 75, kind >= 20
			if hasV && budget == 0 {
				hasV, hasU = false, true
			}
			vs[i], us[i] = "x", "x"
			if hasV {
				budget--
				f := float64(unit) * float64(r.Range(-5, 20))
				if !isInt && r.Chance(0.3) {
					f *= h.Pick(r, []float64{0.5, 0.25})
				}
				vs[i] = fval(isInt, f)
			}
			if hasU {
				f := float64(r.Range(0, 10))
				if !isInt && r.Chance(0.3) {
					f += 0.5
				}
				us[i] = fval(isInt, f)
			}
		}
		ops = append(ops, realLine(hosts[s], isInt, times, vs, us))
	}
	for i := 0; i < nq; i++ {
		q := genQuery(r, tspan, withMean)
		if q.calls == nil && (q.dur > 0 || q.fill == "none") {
			q.dur, q.fill = 0, "" // keep the rejected statements to the in-memory cases
		}
		q.desc = r.Chance(0.5)
		// "The OFFSET clause requires a LIMIT clause" (InfluxQL documentation): the storage
		// engine's limit iterator stops after OFFSET+LIMIT points, so OFFSET alone returns one row
		if q.offset > 0 && q.limit == 0 {
			q.limit = r.Range(1, 5)
		}
		if r.Chance(0.5) {
			q.condOp = h.Pick(r, []string{">", ">=", "<", "<="})
			q.condK = r.Range(0, 10)
		}
		// a sole selector without GROUP BY time may carry the aux field
		if len(q.calls) >= 1 && r.Chance(0.4) {
			q.calls = []string{h.Pick(r, []string{"min", "max", "first", "last"})}
			q.dur, q.hasOff, q.fill = 0, false, ""
			q.aux = true
		}
		if l, ok := realQueryLine(q); ok {
			ops = append(ops, l)
		}
	}
	return ops
}
