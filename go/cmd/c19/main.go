// Harness for C19 (retention drops only expired data): real meta.Client,
// coordinator.PointsWriter.MapShards, retention.Service.DeletionCheck,
// RetentionPolicyInfo.ExpiredShardGroups.
package main

import (
	"math/big"

	m "verif/harness/cmd/c19/metah"
	"verif/harness/h"
)

var margin = int64(m.Margin)

// offsets from a cutoff: well before / well after (never inside the clock-jitter band)
func offset(r *h.Rand, sgd int64) int64 {
	mag := []int64{margin, margin + 1, 60_000_000_000, 20 * 60_000_000_000, sgd / 2, sgd, sgd + 1, 3 * sgd, 40 * sgd, 400 * m.Day}
	o := h.Pick(r, mag)
	if r.Chance(0.3) {
		o += r.Range(0, sgd)
	}
	if o < margin {
		o = margin
	}
	if r.Bool() {
		return -o
	}
	return o
}

// a write case: one policy, several MapShards calls around one cutoff
func genWrites(r *h.Rand, emit func([]string)) {
	sgd := h.Pick(r, m.AlignedDurations)
	raw := "0"
	if r.Chance(0.3) {
		raw = "1"
	}
	ops := []string{m.Fmt("rp db0 rp0 %d %s", sgd, raw)}
	a := m.HalfHourCutoff(r)
	n := 2 + r.Intn(4)
	for i := 0; i < n; i++ {
		if r.Chance(0.15) { // move the cutoff by whole hours
			a += r.Range(-48, 48) * m.Hour
		}
		cut := m.I(a)
		if r.Chance(0.2) {
			cut = "-"
		}
		k := 1 + r.Intn(6)
		var ts []int64
		for j := 0; j < k; j++ {
			switch {
			case r.Chance(0.08):
				ts = append(ts, h.Pick(r, []int64{m.MinNano, m.MaxNano, 0, -1, 1}))
			case len(ts) > 0 && r.Chance(0.25):
				ts = append(ts, ts[r.Intn(len(ts))]) // duplicate timestamp
			default:
				ts = append(ts, a+offset(r, sgd))
			}
		}
		// keep every timestamp outside the jitter band [a-margin, a+margin)
		for j := range ts {
			if ts[j] > a-margin && ts[j] < a+margin {
				ts[j] = a + margin
			}
		}
		ops = append(ops, m.Fmt("ms db0 rp0 %s %s", cut, m.JoinI(ts)))
		if r.Chance(0.3) {
			ops = append(ops, "dump db0 rp0")
		}
		if r.Chance(0.15) {
			ops = append(ops, "restart")
		}
	}
	ops = append(ops, "dump db0 rp0")
	emit(ops)
}

func bigStr(b *big.Int) string { return b.String() }

// an expiry case: arbitrary durations / timestamps, exact boundaries of `end + D < t`
func genExpired(r *h.Rand, emit func([]string)) {
	durs := []int64{1, 7, 1000, 999_999_937, m.Hour, m.Hour + 1, m.Day, 7 * m.Day, 365 * m.Day, 36500 * m.Day}
	sgd := h.Pick(r, durs)
	ops := []string{m.Fmt("rp db0 rp0 %d 1", sgd)}
	bases := []int64{0, -1, 1, m.MinNano, m.MaxNano, 1_600_000_000_000_000_000, -2_000_000_000_000_000_000, 4_000_000_000_000_000_000}
	var ts []int64
	n := 1 + r.Intn(5)
	for i := 0; i < n; i++ {
		b := h.Pick(r, bases)
		switch r.Intn(3) {
		case 0:
			b += r.Range(-3, 3) * sgd
		case 1:
			b += r.Range(-1000, 1000)
		}
		if b < m.MinNano {
			b = m.MinNano
		}
		if b > m.MaxNano {
			b = m.MaxNano
		}
		ts = append(ts, b)
	}
	ops = append(ops, m.Fmt("ms db0 rp0 - %s", m.JoinI(ts)))
	if r.Chance(0.3) {
		ops = append(ops, m.Fmt("del db0 rp0 %d", 1+r.Intn(n)))
	}
	if r.Chance(0.2) {
		ops = append(ops, "restart")
	}
	for i := 0; i < 3+r.Intn(5); i++ {
		t0 := h.Pick(r, ts)
		_, e := m.TruncBounds(t0, sgd)
		D := h.Pick(r, []int64{0, 1, -1, m.Hour, sgd, 7 * m.Day, 365 * m.Day, -m.Hour, 1 << 62})
		if r.Chance(0.2) {
			D = r.Range(1, 1<<40)
		}
		// t around end + D
		tb := new(big.Int).Add(e, big.NewInt(D))
		tb.Add(tb, big.NewInt(h.Pick(r, []int64{-1, 0, 1, 2, -m.Hour, m.Hour, r.Range(-1000, 1000)})))
		if !tb.IsInt64() {
			tb = big.NewInt(h.Pick(r, []int64{m.MaxNano, m.MinNano, 0}))
		}
		ops = append(ops, m.Fmt("exp db0 rp0 %d %s", D, bigStr(tb)))
	}
	emit(ops)
}

// a truncated group: ExpiredShardGroups must keep testing EndTime (points stored before the
// truncation live in [StartTime, EndTime)); expiry is queried around TruncatedAt + D and EndTime + D
func genTruncExpired(r *h.Rand, emit func([]string)) {
	sgd := h.Pick(r, []int64{m.Hour, m.Day, 7 * m.Day, 1_000_000_007})
	ops := []string{m.Fmt("rp db0 rp0 %d 1", sgd)}
	base := h.Pick(r, []int64{0, 1_600_000_000_000_000_000, -2_000_000_000_000_000_000}) + r.Range(-20, 20)*sgd
	sb, eb := m.TruncBounds(base, sgd)
	st, en := sb.Int64(), eb.Int64()
	ops = append(ops, m.Fmt("ms db0 rp0 - %d,%d", st+r.Range(0, sgd-1), en+r.Range(0, sgd-1)))
	cut := st + r.Range(1, sgd-1) // inside the first group: it is truncated, the next one is "future"
	if r.Chance(0.15) {
		cut = st
	}
	ops = append(ops, m.Fmt("trunc %d", cut), "dump db0 rp0")
	if r.Chance(0.3) {
		ops = append(ops, "restart")
	}
	D := h.Pick(r, []int64{1, m.Hour, sgd, 30 * m.Day, r.Range(1, 1<<40)})
	for _, t := range []int64{cut + D, cut + D + 1, cut + D + (en-cut)/2, en + D - 1, en + D, en + D + 1, en + sgd + D + 1} {
		ops = append(ops, m.Fmt("exp db0 rp0 %d %d", D, t))
	}
	if r.Chance(0.5) { // writes after the truncation go to a new group; more queries
		ops = append(ops, m.Fmt("ms db0 rp0 - %d", cut+r.Range(0, en-cut-1)), "dump db0 rp0", m.Fmt("exp db0 rp0 %d %d", D, cut+D+1), m.Fmt("exp db0 rp0 %d %d", D, en+D+1))
	}
	emit(ops)
}

// a deletion-check case: policies with hour-aligned groups, cutoffs on the half hour
func genDeletion(r *h.Rand, emit func([]string)) {
	type pol struct {
		db, rp string
		sgd    int64
		ts     []int64
	}
	var pols []pol
	var ops []string
	ndb := 1 + r.Intn(2)
	for d := 0; d < ndb; d++ {
		nrp := 1 + r.Intn(2)
		for p := 0; p < nrp; p++ {
			pl := pol{db: m.Fmt("db%d", d), rp: m.Fmt("rp%d", p), sgd: h.Pick(r, m.AlignedDurations)}
			ops = append(ops, m.Fmt("rp %s %s %d 0", pl.db, pl.rp, pl.sgd))
			pols = append(pols, pl)
		}
	}
	// groups: a run of consecutive groups around a base per policy
	nshard := 0
	cutoffs := map[int]int64{}
	for i := range pols {
		pl := &pols[i]
		a := m.HalfHourCutoff(r)
		cutoffs[i] = a
		k := 1 + r.Intn(5)
		for j := 0; j < k; j++ {
			pl.ts = append(pl.ts, a+r.Range(-4, 3)*pl.sgd+r.Range(0, pl.sgd-1))
		}
		ops = append(ops, m.Fmt("ms %s %s - %s", pl.db, pl.rp, m.JoinI(pl.ts)))
		nshard += k
	}
	pickIDs := func(p float64) []int {
		var out []int
		for id := 1; id <= nshard+1; id++ {
			if r.Chance(p) {
				out = append(out, id)
			}
		}
		return out
	}
	rounds := 1 + r.Intn(3)
	for round := 0; round < rounds; round++ {
		// pre-deleted groups
		if r.Chance(0.4) {
			pl := pols[r.Intn(len(pols))]
			ops = append(ops, m.Fmt("del %s %s %d", pl.db, pl.rp, 1+r.Intn(nshard)))
		}
		if r.Chance(0.2) {
			pl := pols[r.Intn(len(pols))]
			at := h.Pick(r, []int64{1_000_000_000_000_000_000, 1_500_000_000_000_000_000, 2_600_000_000_000_000_000})
			ops = append(ops, m.Fmt("setdel %s %s %d %d", pl.db, pl.rp, 1+r.Intn(nshard), at))
		}
		if r.Chance(0.15) {
			ops = append(ops, m.Fmt("dropshard %d", 1+r.Intn(nshard)))
		}
		ops = append(ops, "store local "+m.JoinU(pickIDs(0.7)))
		for _, f := range []string{"inuse", "blockfail", "inusefail", "delfail", "delnf", "dsgfail", "dropfail"} {
			if r.Chance(0.25) {
				ops = append(ops, "store "+f+" "+m.JoinU(pickIDs(0.2)))
			} else if round > 0 && r.Chance(0.5) {
				ops = append(ops, "store "+f+" -")
			}
		}
		var cs []string
		for i, pl := range pols {
			if r.Chance(0.8) {
				a := cutoffs[i] + r.Range(-3, 3)*m.Hour
				cs = append(cs, m.Fmt("%s:%s:%d", pl.db, pl.rp, a))
			}
		}
		if r.Chance(0.1) {
			cs = append(cs, "nodb:rp0:1000")
		}
		ops = append(ops, "dc "+h.Join(cs))
		for _, pl := range pols {
			if r.Chance(0.6) {
				ops = append(ops, m.Fmt("dump %s %s", pl.db, pl.rp))
			}
		}
		if r.Chance(0.2) {
			ops = append(ops, "restart")
		}
		if r.Chance(0.3) { // more writes between checks
			pl := pols[r.Intn(len(pols))]
			ops = append(ops, m.Fmt("ms %s %s - %s", pl.db, pl.rp, m.JoinI([]int64{h.Pick(r, pl.ts) + r.Range(-2, 2)*pl.sgd})))
		}
	}
	emit(ops)
}

func genMalformed(r *h.Rand, emit func([]string)) {
	emit([]string{"rp db0 rp0 0 0", "ms nodb rp0 - 1,2", "ms db0 norp - 1", "csg db0 rp0 5", "frob 1 2", "ms db0 rp0 x 1",
		"exp db0 rp0 1", "dc db0:rp0", "ms db0 rp0 1900000000000000000 5", "dc db0:rp0:1800000000000000000", "del db0 rp0 99", "find db0 rp0 5", "find db0 rp0 99999999999999999999999",
		"range db0 rp0 0 10", "dump nodb rp0", "dump db0 norp", "rp db0 rp0 7200000000000 0", "rp db$ rp0 1 1",
		"store local 1,2,x", "store what 1", "dropshard 77", "restart", "dc -"})
	// zero / negative shard group durations: `nil shard group`
	emit([]string{"rp db0 rp0 0 1", "ms db0 rp0 - 5,6", "dump db0 rp0", "rp db0 rp1 -5 1", "ms db0 rp1 - 100", "dump db0 rp1", "restart", "dump db0 rp1"})
}

func gen(r *h.Rand, tier string, emit func([]string)) {
	n := 150
	if tier == "thorough" {
		n = 1500
	}
	genMalformed(r, emit)
	for i := 0; i < n; i++ {
		genWrites(r, emit)
		genExpired(r, emit)
		if i%3 == 0 {
			genTruncExpired(r, emit)
		}
		genDeletion(r, emit)
	}
}

func main() {
	h.Main(h.Harness{Gen: gen, NewCase: func() h.CaseRunner { return m.NewRunner() }})
}
