// Package metah is the case runner shared by the C18 and C19 harnesses: it
// executes op lines on the REAL v1 meta client (in-memory kv store),
// coordinator.PointsWriter.MapShards and retention.Service.DeletionCheck.
//
// Wall-clock time cannot be injected into the code under test (time.Now()).
// Ops that depend on it (`ms` with a cutoff, `dc`) therefore carry the CUTOFF
// `now − Duration`; the runner sets Duration := now₀ − cutoff immediately before
// the call, checks afterwards that the call took less than `margin`, and retries
// on a restored state otherwise.  The generators keep every timestamp / group end
// at least `margin` away from the cutoff.
package metah

import (
	"context"
	"errors"
	"fmt"
	"sort"
	"strconv"
	"strings"
	"time"

	"github.com/influxdata/influxdb/v2/inmem"
	"github.com/influxdata/influxdb/v2/kv"
	"github.com/influxdata/influxdb/v2/models"
	"github.com/influxdata/influxdb/v2/tsdb"
	"github.com/influxdata/influxdb/v2/v1/coordinator"
	"github.com/influxdata/influxdb/v2/v1/services/meta"
	"github.com/influxdata/influxdb/v2/v1/services/retention"
	"verif/harness/h"
)

// Margin: the generators keep timestamps and group ends at least this far from a cutoff.
const Margin = 10 * time.Second

type fakeStore struct {
	shards                                                                  []uint64
	inUse, blockFail, inUseFail, deleteFail, deleteNotFound, dsgFail, dropFail map[uint64]bool
	log                                                                     *[]string
}

func has(m map[uint64]bool, id uint64) bool { return m != nil && m[id] }

func (s *fakeStore) ShardIDs() []uint64 { return append([]uint64(nil), s.shards...) }
func (s *fakeStore) SetShardNewReadersBlocked(id uint64, blocked bool) error {
	if blocked {
		if has(s.blockFail, id) {
			*s.log = append(*s.log, fmt.Sprintf("blk/%d/0", id))
			return errors.New("injected: block failed")
		}
		*s.log = append(*s.log, fmt.Sprintf("blk/%d/1", id))
		return nil
	}
	*s.log = append(*s.log, fmt.Sprintf("unb/%d", id))
	return nil
}
func (s *fakeStore) ShardInUse(id uint64) (bool, error) {
	if has(s.inUseFail, id) {
		*s.log = append(*s.log, fmt.Sprintf("use/%d/0/0", id))
		return false, errors.New("injected: in-use failed")
	}
	u := has(s.inUse, id)
	*s.log = append(*s.log, fmt.Sprintf("use/%d/1/%s", id, h.B(u)))
	return u, nil
}
func (s *fakeStore) DeleteShard(id uint64) error {
	if has(s.deleteNotFound, id) {
		*s.log = append(*s.log, fmt.Sprintf("rm/%d/2", id))
		return tsdb.ErrShardNotFound
	}
	if has(s.deleteFail, id) {
		*s.log = append(*s.log, fmt.Sprintf("rm/%d/1", id))
		return errors.New("injected: delete failed")
	}
	*s.log = append(*s.log, fmt.Sprintf("rm/%d/0", id))
	for i, x := range s.shards {
		if x == id {
			s.shards = append(append([]uint64(nil), s.shards[:i]...), s.shards[i+1:]...)
			break
		}
	}
	return nil
}

// metaWrap records the calls DeletionCheck makes on the real meta client.
type metaWrap struct {
	c   *meta.Client
	fs  *fakeStore
	log *[]string
}

func (w *metaWrap) Databases() []meta.DatabaseInfo { return w.c.Databases() }
func (w *metaWrap) DeleteShardGroup(db, rp string, id uint64) error {
	if has(w.fs.dsgFail, id) {
		*w.log = append(*w.log, fmt.Sprintf("dsg/%s/%s/%d/0", db, rp, id))
		return errors.New("injected: delete shard group failed")
	}
	err := w.c.DeleteShardGroup(db, rp, id)
	*w.log = append(*w.log, fmt.Sprintf("dsg/%s/%s/%d/%s", db, rp, id, h.B(err == nil)))
	return err
}
func (w *metaWrap) DropShard(id uint64) error { return w.c.DropShard(id) }
func (w *metaWrap) PruneShardGroups() error {
	*w.log = append(*w.log, "prune")
	return w.c.PruneShardGroups()
}

// Runner is one case.
type Runner struct {
	store kv.SchemaStore
	c     *meta.Client
	fs    *fakeStore
	// Jitter counts ops that had to be retried because the call took longer than Margin.
	Jitter int
}

func NewRunner() *Runner {
	st := inmem.NewKVStore()
	_ = st.CreateBucket(context.Background(), meta.BucketName)
	c := meta.NewClient(meta.NewConfig(), st)
	if err := c.Open(); err != nil {
		panic(err)
	}
	return &Runner{store: st, c: c, fs: &fakeStore{}}
}

func (r *Runner) Close() { r.c.Close() }

func errEnum(err error) string {
	s := err.Error()
	switch {
	case strings.Contains(s, "database not found"):
		return "err:db-not-found"
	case strings.Contains(s, "retention policy not found"):
		return "err:rp-not-found"
	case errors.Is(err, meta.ErrShardGroupNotFound):
		return "err:sg-not-found"
	case strings.Contains(s, "nil shard group"):
		return "err:nil-shard-group"
	case strings.Contains(s, "has no shards"):
		return "err:no-shards"
	case errors.Is(err, meta.ErrRetentionPolicyExists):
		return "err:rp-exists"
	case errors.Is(err, meta.ErrReplicationFactorTooLow):
		return "err:replica-low"
	case errors.Is(err, meta.ErrIncompatibleDurations):
		return "err:incompatible-durations"
	}
	return "err:other:" + strings.ReplaceAll(s, " ", "_")
}

func tm(v int64) time.Time { return time.Unix(0, v).UTC() }

// ns renders a time.Time as exact nanoseconds since the Unix epoch, also outside the
// int64 range (UnixNano would wrap there).
func ns(t time.Time) string {
	sec := t.Unix()
	n := int64(t.Nanosecond())
	// sec*1e9 + n in arbitrary precision via two int64 parts
	hi, lo := sec/1_000_000_000, sec%1_000_000_000 // sec = hi*1e9 + lo
	// value = hi*1e18 + lo*1e9 + n ; |lo*1e9 + n| < 1e18+1e9
	rest := lo*1_000_000_000 + n
	if hi == 0 {
		return strconv.FormatInt(rest, 10)
	}
	// normalise so that rest has the sign of hi and |rest| < 1e18
	const e18 = 1_000_000_000_000_000_000
	if hi > 0 && rest < 0 {
		hi--
		rest += e18
	} else if hi < 0 && rest > 0 {
		hi++
		rest -= e18
	}
	if hi == 0 {
		return strconv.FormatInt(rest, 10)
	}
	if rest < 0 {
		rest = -rest
	}
	return fmt.Sprintf("%d%018d", hi, rest)
}

func effEnd(g *meta.ShardGroupInfo) time.Time {
	if g.Truncated() {
		return g.TruncatedAt
	}
	return g.EndTime
}

func showGroup(g *meta.ShardGroupInfo) string {
	tr := "n"
	if g.Truncated() {
		tr = ns(g.TruncatedAt)
	}
	sh := "n"
	if len(g.Shards) > 0 {
		ss := make([]string, len(g.Shards))
		for i, s := range g.Shards {
			ss[i] = strconv.FormatUint(s.ID, 10)
		}
		sh = strings.Join(ss, "+")
	}
	return fmt.Sprintf("%d/%s/%s/%s/%s/%s", g.ID, ns(g.StartTime), ns(g.EndTime), h.B(g.Deleted()), tr, sh)
}

func showGroups(gs []meta.ShardGroupInfo) string {
	gs = append([]meta.ShardGroupInfo(nil), gs...)
	sort.SliceStable(gs, func(i, j int) bool {
		a, b := &gs[i], &gs[j]
		if !effEnd(a).Equal(effEnd(b)) {
			return effEnd(a).Before(effEnd(b))
		}
		if !a.StartTime.Equal(b.StartTime) {
			return a.StartTime.Before(b.StartTime)
		}
		return a.ID < b.ID
	})
	if len(gs) == 0 {
		return "-"
	}
	ss := make([]string, len(gs))
	for i := range gs {
		ss[i] = showGroup(&gs[i])
	}
	return strings.Join(ss, ",")
}

func showFull(d *meta.Data) string {
	var parts []string
	for _, di := range d.Databases {
		for _, rp := range di.RetentionPolicies {
			parts = append(parts, di.Name+"|"+rp.Name+"|"+showGroups(rp.ShardGroups))
		}
	}
	if len(parts) == 0 {
		return "-"
	}
	return strings.Join(parts, ";")
}

func uints(xs []uint64) string {
	if len(xs) == 0 {
		return "-"
	}
	ss := make([]string, len(xs))
	for i, x := range xs {
		ss[i] = strconv.FormatUint(x, 10)
	}
	return strings.Join(ss, ",")
}

func parseUints(s string) []uint64 {
	var out []uint64
	for _, v := range h.ParseInts(s) {
		out = append(out, uint64(v))
	}
	return out
}

func set(xs []uint64) map[uint64]bool {
	m := map[uint64]bool{}
	for _, x := range xs {
		m[x] = true
	}
	return m
}

func (r *Runner) setData(d *meta.Data) {
	if err := r.c.SetData(d); err != nil {
		panic(err)
	}
}

// withClock runs f (which sets durations from now₀ and calls the code under test) and
// retries on a restored meta state when the wall clock moved by Margin/2 or more during
// the call (or went backwards).
func (r *Runner) withClock(f func(now0 time.Time) string) string {
	for try := 0; ; try++ {
		saved := r.c.Data()
		savedShards := append([]uint64(nil), r.fs.shards...)
		now0 := time.Now().Round(0)
		ans := f(now0)
		el := time.Now().Round(0).Sub(now0)
		if (el >= 0 && el < Margin/2) || try >= 5 {
			if try >= 5 {
				return "clock-unstable"
			}
			return ans
		}
		r.Jitter++
		r.setData(&saved)
		r.fs.shards = savedShards
	}
}

func isInt(s string) bool { _, err := strconv.ParseInt(s, 10, 64); return err == nil }

// isCutoff: a cutoff must lie before 2023-11-14 (before the wall clock of any run and the model's clock).
func isCutoff(s string) bool {
	v, err := strconv.ParseInt(s, 10, 64)
	return err == nil && v <= 1700000000000000000
}
func isUint(s string) bool {
	_, err := strconv.ParseUint(s, 10, 63)
	return err == nil && !strings.HasPrefix(s, "+")
}
func isName(s string) bool {
	if s == "" {
		return false
	}
	for _, c := range s {
		if !(c >= '0' && c <= '9' || c >= 'a' && c <= 'z' || c >= 'A' && c <= 'Z') {
			return false
		}
	}
	return true
}
func isList(s string, f func(string) bool) bool {
	if s == "-" {
		return true
	}
	for _, p := range strings.Split(s, ",") {
		if !f(p) {
			return false
		}
	}
	return true
}

// wellFormed mirrors Influx.Meta.parseOp: anything else is answered `bad-op`.
func wellFormed(t []string) bool {
	switch t[0] {
	case "rp":
		return len(t) == 5 && isName(t[1]) && isName(t[2]) && isInt(t[3]) && (t[4] == "0" || t[4] == "1")
	case "csg", "find", "sgd":
		return len(t) == 4 && isInt(t[3])
	case "ms":
		return len(t) == 5 && (t[3] == "-" || isCutoff(t[3])) && isList(t[4], isInt)
	case "dump":
		return len(t) == 3
	case "restart":
		return len(t) == 1
	case "range":
		return len(t) == 5 && isInt(t[3]) && isInt(t[4])
	case "pre":
		return len(t) == 3 && isInt(t[1]) && isInt(t[2])
	case "trunc":
		return len(t) == 2 && isInt(t[1])
	case "del":
		return len(t) == 4 && isUint(t[3])
	case "exp":
		return len(t) == 5 && isInt(t[3]) && isInt(t[4])
	case "store":
		return len(t) == 3 && isList(t[2], isUint)
	case "dc":
		return len(t) == 2 && isList(t[1], func(e string) bool {
			p := strings.Split(e, ":")
			return len(p) == 3 && isCutoff(p[2])
		})
	case "setdel":
		return len(t) == 5 && isUint(t[3]) && isInt(t[4])
	case "dropshard":
		return len(t) == 2 && isUint(t[1])
	}
	return false
}

func (r *Runner) Op(t []string) string {
	if len(t) == 0 || !wellFormed(t) {
		return "bad-op"
	}
	switch {
	case t[0] == "rp" && len(t) == 5:
		db, rp := t[1], t[2]
		sgd := time.Duration(h.Atoi(t[3]))
		raw := t[4] == "1"
		d := r.c.Data()
		if d.Database(db) == nil {
			if err := d.CreateDatabase(db); err != nil {
				return errEnum(err)
			}
		}
		if err := d.CreateRetentionPolicy(db, &meta.RetentionPolicyInfo{Name: rp, ReplicaN: 1, ShardGroupDuration: sgd}, false); err != nil {
			return errEnum(err)
		}
		if raw {
			rpi, _ := d.RetentionPolicy(db, rp)
			rpi.ShardGroupDuration = sgd
		}
		r.setData(&d)
		return "ok"
	case t[0] == "sgd" && len(t) == 4:
		d := r.c.Data()
		rpi, err := d.RetentionPolicy(t[1], t[2])
		if err != nil {
			return errEnum(err)
		}
		if rpi == nil {
			return "err:rp-not-found"
		}
		rpi.ShardGroupDuration = time.Duration(h.Atoi(t[3]))
		r.setData(&d)
		return "ok"
	case t[0] == "csg" && len(t) == 4:
		g, err := r.c.CreateShardGroup(t[1], t[2], tm(h.Atoi(t[3])))
		if err != nil {
			return errEnum(err)
		}
		if g == nil {
			return "nil"
		}
		return fmt.Sprintf("g=%d/%s/%s", g.ID, ns(g.StartTime), ns(g.EndTime))
	case t[0] == "ms" && len(t) == 5:
		return r.mapShards(t[1], t[2], t[3], h.ParseInts(t[4]))
	case t[0] == "dump" && len(t) == 3:
		d := r.c.Data()
		rpi, err := d.RetentionPolicy(t[1], t[2])
		if err != nil {
			return errEnum(err)
		}
		if rpi == nil {
			return "err:rp-not-found"
		}
		return "gs=" + showGroups(rpi.ShardGroups)
	case t[0] == "restart" && len(t) == 1:
		before := r.c.Data()
		r.c.Close()
		c := meta.NewClient(meta.NewConfig(), r.store)
		if err := c.Open(); err != nil {
			return "err:open:" + strings.ReplaceAll(err.Error(), " ", "_")
		}
		r.c = c
		after := r.c.Data()
		return "before=" + showFull(&before) + " after=" + showFull(&after)
	case t[0] == "find" && len(t) == 4:
		d := r.c.Data()
		g, err := d.ShardGroupByTimestamp(t[1], t[2], tm(h.Atoi(t[3])))
		if err != nil {
			return errEnum(err)
		}
		if g == nil {
			return "nil"
		}
		return fmt.Sprintf("g=%d/%s/%s", g.ID, ns(g.StartTime), ns(g.EndTime))
	case t[0] == "range" && len(t) == 5:
		gs, err := r.c.ShardGroupsByTimeRange(t[1], t[2], tm(h.Atoi(t[3])), tm(h.Atoi(t[4])))
		if err != nil {
			return errEnum(err)
		}
		ids := make([]uint64, len(gs))
		for i, g := range gs {
			ids[i] = g.ID
		}
		sort.Slice(ids, func(i, j int) bool { return ids[i] < ids[j] })
		return "ids=" + uints(ids)
	case t[0] == "del" && len(t) == 4:
		if err := r.c.DeleteShardGroup(t[1], t[2], uint64(h.Atoi(t[3]))); err != nil {
			return errEnum(err)
		}
		return "ok"
	case t[0] == "exp" && len(t) == 5:
		d := r.c.Data()
		rpi, err := d.RetentionPolicy(t[1], t[2])
		if err != nil {
			return errEnum(err)
		}
		if rpi == nil {
			return "err:rp-not-found"
		}
		rpi.Duration = time.Duration(h.Atoi(t[3]))
		gs := rpi.ExpiredShardGroups(tm(h.Atoi(t[4])))
		ids := make([]uint64, len(gs))
		for i, g := range gs {
			ids[i] = g.ID
		}
		sort.Slice(ids, func(i, j int) bool { return ids[i] < ids[j] })
		return "ids=" + uints(ids) + " gs=" + showGroups(rpi.ShardGroups)
	case t[0] == "store" && len(t) == 3:
		ids := parseUints(t[2])
		switch t[1] {
		case "local":
			r.fs.shards = ids
		case "inuse":
			r.fs.inUse = set(ids)
		case "blockfail":
			r.fs.blockFail = set(ids)
		case "inusefail":
			r.fs.inUseFail = set(ids)
		case "delfail":
			r.fs.deleteFail = set(ids)
		case "delnf":
			r.fs.deleteNotFound = set(ids)
		case "dsgfail":
			r.fs.dsgFail = set(ids)
		case "dropfail":
			r.fs.dropFail = set(ids)
		default:
			return "bad-op"
		}
		return "ok"
	case t[0] == "dc" && len(t) == 2:
		return r.deletionCheck(t[1])
	case t[0] == "setdel" && len(t) == 5:
		d := r.c.Data()
		rpi, err := d.RetentionPolicy(t[1], t[2])
		if err == nil && rpi != nil {
			id := uint64(h.Atoi(t[3]))
			for i := range rpi.ShardGroups {
				if rpi.ShardGroups[i].ID == id {
					rpi.ShardGroups[i].DeletedAt = tm(h.Atoi(t[4]))
				}
			}
			r.setData(&d)
		}
		return "ok"
	case t[0] == "trunc" && len(t) == 2:
		if err := r.c.TruncateShardGroups(tm(h.Atoi(t[1]))); err != nil {
			return errEnum(err)
		}
		return "ok"
	case t[0] == "pre" && len(t) == 3:
		if err := r.c.PrecreateShardGroups(tm(h.Atoi(t[1])), tm(h.Atoi(t[2]))); err != nil {
			return errEnum(err)
		}
		return "ok"
	case t[0] == "dropshard" && len(t) == 2:
		if err := r.c.DropShard(uint64(h.Atoi(t[1]))); err != nil {
			return errEnum(err)
		}
		return "ok"
	}
	return "bad-op"
}

func (r *Runner) mapShards(db, rp, cutoff string, ts []int64) string {
	return r.withClock(func(now0 time.Time) string {
		d := r.c.Data()
		if rpi, err := d.RetentionPolicy(db, rp); err == nil && rpi != nil {
			if cutoff == "-" {
				rpi.Duration = 0
			} else {
				rpi.Duration = now0.Sub(tm(h.Atoi(cutoff)))
			}
			r.setData(&d)
		}
		pw := coordinator.NewPointsWriter(time.Second, "")
		pw.MetaClient = r.c
		req := &coordinator.WritePointsRequest{Database: db, RetentionPolicy: rp}
		for i, t := range ts {
			p, err := models.NewPoint("p"+strconv.Itoa(i), nil, map[string]interface{}{"v": 1.0}, tm(t))
			if err != nil {
				return "err:new-point"
			}
			req.Points = append(req.Points, p)
		}
		m, err := pw.MapShards(req)
		if err != nil {
			return errEnum(err)
		}
		shardOf := map[string]uint64{}
		for id, pts := range m.Points {
			for _, p := range pts {
				shardOf[string(p.Name())] = id
			}
		}
		after := r.c.Data()
		rpi, _ := after.RetentionPolicy(db, rp)
		out := make([]string, len(ts))
		for i := range ts {
			id, ok := shardOf["p"+strconv.Itoa(i)]
			if !ok {
				out[i] = "d"
				continue
			}
			out[i] = fmt.Sprintf("%d@0/0/0", id)
			if rpi != nil {
				for gi := range rpi.ShardGroups {
					g := &rpi.ShardGroups[gi]
					for _, s := range g.Shards {
						if s.ID == id {
							out[i] = fmt.Sprintf("%d@%d/%s/%s", id, g.ID, ns(g.StartTime), ns(g.EndTime))
						}
					}
				}
			}
		}
		return fmt.Sprintf("drop=%d %s", m.RetentionDropped, h.Join(out))
	})
}

func (r *Runner) deletionCheck(cutoffs string) string {
	return r.withClock(func(now0 time.Time) string {
		d := r.c.Data()
		for i := range d.Databases {
			for j := range d.Databases[i].RetentionPolicies {
				d.Databases[i].RetentionPolicies[j].Duration = 0
			}
		}
		for _, e := range h.Split(cutoffs) {
			p := strings.Split(e, ":")
			if len(p) != 3 {
				return "bad-op"
			}
			if rpi, err := d.RetentionPolicy(p[0], p[1]); err == nil && rpi != nil {
				rpi.Duration = now0.Sub(tm(h.Atoi(p[2])))
			}
		}
		r.setData(&d)
		pre := showFull(&d)
		local := uints(r.fs.shards)
		var log []string
		r.fs.log = &log
		w := &metaWrap{c: r.c, fs: r.fs, log: &log}
		svc := retention.NewService(retention.NewConfig())
		svc.SetOSSMetaClient(w)
		svc.TSDBStore = r.fs
		svc.DropShardMetaRef = func(id uint64, owners []uint64) error {
			if has(r.fs.dropFail, id) {
				log = append(log, fmt.Sprintf("ref/%d/0/?", id))
				return errors.New("injected: drop ref failed")
			}
			log = append(log, fmt.Sprintf("ref/%d/1/?", id))
			return w.DropShard(id)
		}
		svc.DeletionCheck(context.Background())
		// a `ref` directly after the same shard's `rm` belongs to the local pass; the others are
		// phantom drops, made while ranging over a Go map: sort that run by id
		var out, ph []string
		for i, e := range log {
			if strings.HasPrefix(e, "ref/") {
				id := strings.Split(e, "/")[1]
				local := i > 0 && strings.HasPrefix(log[i-1], "rm/"+id+"/")
				if local {
					out = append(out, strings.TrimSuffix(e, "?")+"0")
				} else {
					ph = append(ph, strings.TrimSuffix(e, "?")+"1")
				}
				continue
			}
			if e == "prune" {
				sort.Slice(ph, func(a, b int) bool {
					x, _ := strconv.ParseUint(strings.Split(ph[a], "/")[1], 10, 64)
					y, _ := strconv.ParseUint(strings.Split(ph[b], "/")[1], 10, 64)
					return x < y
				})
				out = append(out, ph...)
				ph = nil
			}
			out = append(out, e)
		}
		out = append(out, ph...)
		return "log=" + h.Join(out) + " pre=" + pre + " local=" + local
	})
}
