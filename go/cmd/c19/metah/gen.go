package metah

import (
	"fmt"
	"math/big"
	"strconv"
	"strings"

	"verif/harness/h"
)

const (
	Hour = int64(3600_000_000_000)
	Day  = 24 * Hour
	// MinNano / MaxNano: models.MinNanoTime / MaxNanoTime
	MinNano = int64(-9223372036854775806)
	MaxNano = int64(9223372036854775806)
)

var yearOne = new(big.Int).Mul(big.NewInt(62135596800), big.NewInt(1_000_000_000))

// TruncBounds: [start, end) of the shard group Truncate would give for t and duration d,
// ignoring clipping and clamping (big integers: may lie outside int64).
func TruncBounds(t, d int64) (*big.Int, *big.Int) {
	T := big.NewInt(t)
	if d <= 0 {
		return T, new(big.Int).Add(T, big.NewInt(d))
	}
	abs := new(big.Int).Add(T, yearOne)
	m := new(big.Int).Mod(abs, big.NewInt(d))
	s := new(big.Int).Sub(T, m)
	return s, new(big.Int).Add(s, big.NewInt(d))
}

func I(v int64) string { return strconv.FormatInt(v, 10) }

func JoinI(xs []int64) string { return h.Ints(xs) }

func JoinU(xs []int) string {
	if len(xs) == 0 {
		return "-"
	}
	ss := make([]string, len(xs))
	for i, x := range xs {
		ss[i] = strconv.Itoa(x)
	}
	return strings.Join(ss, ",")
}

// AlignedDurations: shard group durations that are whole hours (group bounds fall on the hour,
// so a cutoff on the half hour is ≥ 30 min away from every bound).
var AlignedDurations = []int64{Hour, 2 * Hour, 6 * Hour, Day, 7 * Day, 30 * Day}

// HalfHourCutoff returns a cutoff between 1802 and 2023 on a half hour (+ up to 59 s).
func HalfHourCutoff(r *h.Rand) int64 {
	lo, hi := int64(-5_300_000_000_000_000_000)/Hour, int64(1_680_000_000_000_000_000)/Hour
	k := r.Range(lo, hi)
	if r.Chance(0.5) { // near the epoch / recent years more often
		k = r.Range(-24*365*3, hi)
	}
	return k*Hour + Hour/2 + r.Range(0, 59)*1_000_000_000
}

func Fmt(f string, a ...any) string { return fmt.Sprintf(f, a...) }
