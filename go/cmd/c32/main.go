// Harness for C32: drives the real http.WriteHandler (decodeWriteRequest,
// points.BatchReadCloser, io2.LimitedReadCloser, points.Parser, error handler)
// with fake organization / bucket services and a recording points writer, and
// the real kit/io.LimitedReadCloser on its own with scripted Read sizes.
package main

import (
	"bytes"
	"compress/gzip"
	"context"
	"encoding/json"
	"errors"
	"fmt"
	"io"
	"net/http"
	"net/http/httptest"
	"net/url"
	"regexp"
	"sort"
	"strconv"
	"strings"

	influxdb "github.com/influxdata/influxdb/v2"
	pcontext "github.com/influxdata/influxdb/v2/context"
	ihttp "github.com/influxdata/influxdb/v2/http"
	"github.com/influxdata/influxdb/v2/http/metric"
	io2 "github.com/influxdata/influxdb/v2/kit/io"
	"github.com/influxdata/influxdb/v2/kit/platform"
	perrors "github.com/influxdata/influxdb/v2/kit/platform/errors"
	kithttp "github.com/influxdata/influxdb/v2/kit/transport/http"
	"github.com/influxdata/influxdb/v2/models"
	"github.com/influxdata/influxdb/v2/tsdb"
	"go.uber.org/zap"
	"verif/harness/h"
)

// ---------------------------------------------------------------- scripted reader

var errOther = errors.New("scripted read error")

func termErr(t string) error {
	switch t {
	case "eof":
		return io.EOF
	case "other":
		return errOther
	case "gzh":
		return gzip.ErrHeader
	case "gzc":
		return gzip.ErrChecksum
	}
	panic("bad term " + t)
}

func errTok(err error) string {
	switch {
	case err == nil:
		return "-"
	case err == io.EOF:
		return "eof"
	case errors.Is(err, io2.ErrReadLimitExceeded):
		return "limit"
	case errors.Is(err, gzip.ErrHeader):
		return "gzh"
	case errors.Is(err, gzip.ErrChecksum):
		return "gzc"
	}
	return "other"
}

// scriptReader is the io.ReadCloser of Model/WriteAPI.lean `Src`.
type scriptReader struct {
	data     []byte
	chunks   []int64
	eager    bool
	term     error
	closeErr bool
	closes   int
}

func (s *scriptReader) Read(p []byte) (int, error) {
	if len(s.data) == 0 {
		return 0, s.term
	}
	c := len(p)
	if len(s.chunks) > 0 {
		if int(s.chunks[0]) < c {
			c = int(s.chunks[0])
		}
		s.chunks = s.chunks[1:]
	}
	n := c
	if len(s.data) < n {
		n = len(s.data)
	}
	copy(p, s.data[:n])
	s.data = s.data[n:]
	if len(s.data) == 0 && s.eager {
		return n, s.term
	}
	return n, nil
}

func (s *scriptReader) Close() error {
	s.closes++
	if s.closeErr {
		return errOther
	}
	return nil
}

// ---------------------------------------------------------------- fakes

var (
	orgID    = platform.ID(0x043e0780ee2b1000)
	bucketID = platform.ID(0x04504b356e23b000)
	otherID  = platform.ID(0x0a)
)

var codeOf = map[string]string{
	"internal": perrors.EInternal, "notimpl": perrors.ENotImplemented, "invalid": perrors.EInvalid,
	"unproc": perrors.EUnprocessableEntity, "empty": perrors.EEmptyValue, "conflict": perrors.EConflict,
	"notfound": perrors.ENotFound, "unavail": perrors.EUnavailable, "forbidden": perrors.EForbidden,
	"toomany": perrors.ETooManyRequests, "unauth": perrors.EUnauthorized, "method": perrors.EMethodNotAllowed,
	"toolarge": perrors.ETooLarge,
}
var tokOfCode = func() map[string]string {
	m := map[string]string{}
	for k, v := range codeOf {
		m[v] = k
	}
	return m
}()

func svcErr(tok string) error {
	if tok == "-" {
		return nil
	}
	if tok == "plain" {
		return errors.New("plain service error")
	}
	c, ok := codeOf[tok]
	if !ok {
		panic("bad code " + tok)
	}
	return &perrors.Error{Code: c, Msg: "svc"}
}

type orgSvc struct {
	influxdb.OrganizationService
	err error
}

func (o *orgSvc) FindOrganization(ctx context.Context, f influxdb.OrganizationFilter) (*influxdb.Organization, error) {
	if o.err != nil {
		return nil, o.err
	}
	return &influxdb.Organization{ID: orgID, Name: "myorg"}, nil
}

type bucketSvc struct {
	influxdb.BucketService
	byID, byName error
}

func (b *bucketSvc) FindBucket(ctx context.Context, f influxdb.BucketFilter) (*influxdb.Bucket, error) {
	err := b.byName
	if f.ID != nil {
		err = b.byID
	}
	if err != nil {
		return nil, err
	}
	return &influxdb.Bucket{ID: bucketID, OrgID: orgID, Name: "mybucket"}, nil
}

type recWriter struct {
	calls [][]int64
	res   string
}

var measRe = regexp.MustCompile(`^m([0-9]+)$`)

func (w *recWriter) WritePoints(ctx context.Context, org, bucket platform.ID, pts []models.Point) error {
	ids := make([]int64, 0, len(pts))
	for _, p := range pts {
		m := measRe.FindSubmatch(p.Name())
		if m == nil {
			ids = append(ids, 9999)
			continue
		}
		v, _ := strconv.ParseInt(string(m[1]), 10, 64)
		ids = append(ids, v)
	}
	w.calls = append(w.calls, ids)
	switch {
	case w.res == "ok":
		return nil
	case w.res == "fail":
		return errors.New("boom")
	case strings.HasPrefix(w.res, "p"):
		k, _ := strconv.Atoi(w.res[1:])
		return tsdb.PartialWriteError{Reason: "points beyond retention policy", Dropped: k}
	}
	panic("bad writer " + w.res)
}

func authorizer(tok string) influxdb.Authorizer {
	a := &influxdb.Authorization{OrgID: orgID, Status: influxdb.Active}
	bid, action := bucketID, influxdb.WriteAction
	switch tok {
	case "a":
	case "w":
		bid = otherID
	case "r":
		action = influxdb.ReadAction
	case "i":
		a.Status = influxdb.Inactive
	default:
		panic("bad perm " + tok)
	}
	o := orgID
	a.Permissions = []influxdb.Permission{{Action: action, Resource: influxdb.Resource{Type: influxdb.BucketsResourceType, OrgID: &o, ID: &bid}}}
	return a
}

// ---------------------------------------------------------------- body

type line struct {
	tag  byte
	text []byte
}

func parseLines(s string) []line {
	var out []line
	for _, t := range h.Split(s) {
		out = append(out, line{t[0], h.MustUnHex(t[1:])})
	}
	return out
}

func joinLines(ls []line) []byte {
	var b []byte
	for i, l := range ls {
		if i > 0 {
			b = append(b, '\n')
		}
		b = append(b, l.text...)
	}
	return b
}

func gzipBody(data []byte, term string) []byte {
	var buf bytes.Buffer
	zw := gzip.NewWriter(&buf)
	zw.Write(data)
	zw.Close()
	b := buf.Bytes()
	switch term {
	case "eof":
	case "gzc": // corrupt the CRC32 of the trailer
		b[len(b)-8] ^= 0x5a
	case "other": // cut the trailer: every byte decodes, then unexpected EOF
		b = b[:len(b)-4]
	case "gzh": // a second member with an unreadable header
		b = append(b, make([]byte, 12)...)
	}
	return b
}

// ---------------------------------------------------------------- ops

func opW(t []string) string {
	if len(t) != 16 {
		return "bad-op"
	}
	limit := h.Atoi(t[0])
	enc, chunks, eager, term, closeErr := t[1], h.ParseInts(t[2]), t[3] == "1", t[4], t[5] == "1"
	auth, prec, bgiven, org, bisid, byid, byname, perm, writer := t[6] == "1", t[7], t[8] == "1", t[9], t[10] == "1", t[11], t[12], t[13], t[14]
	ls := parseLines(t[15])
	data := joinLines(ls)

	var body io.Reader
	header := ""
	switch enc {
	case "p", "o":
		body = &scriptReader{data: data, chunks: chunks, eager: eager, term: termErr(term), closeErr: closeErr}
		if enc == "o" {
			header = "identity"
		}
	case "s": // through a real HTTP server, Content-Length framing
		body = bytes.NewReader(data)
	case "k": // through a real HTTP server, chunked transfer encoding
		body = struct{ io.Reader }{bytes.NewReader(data)}
	case "g", "x":
		body = bytes.NewReader(gzipBody(data, term))
		header = map[string]string{"g": "gzip", "x": "x-gzip"}[enc]
	case "h":
		body = bytes.NewReader(append([]byte("this is not gzip"), data...))
		header = "gzip"
	case "e":
		body = bytes.NewReader(nil)
		header = "gzip"
	default:
		return "bad-op"
	}

	w := &recWriter{res: writer}
	backend := &ihttp.APIBackend{
		HTTPErrorHandler:    kithttp.NewErrorHandler(zap.NewNop()),
		Logger:              zap.NewNop(),
		OrganizationService: &orgSvc{err: svcErr(org)},
		BucketService:       &bucketSvc{byID: svcErr(byid), byName: svcErr(byname)},
		PointsWriter:        w,
		WriteEventRecorder:  &metric.NopEventRecorder{},
	}
	handler := ihttp.NewWriteHandler(zap.NewNop(), ihttp.NewWriteBackend(zap.NewNop(), backend), ihttp.WithMaxBatchSizeBytes(limit))

	q := url.Values{}
	q.Set("org", "myorg")
	if bgiven {
		if bisid {
			q.Set("bucket", bucketID.String())
		} else {
			q.Set("bucket", "mybucket")
		}
	}
	switch prec {
	case "-":
	case "bad":
		q.Set("precision", "m")
	default:
		q.Set("precision", prec)
	}
	withAuth := http.HandlerFunc(func(rw http.ResponseWriter, r *http.Request) {
		if auth {
			r = r.WithContext(pcontext.SetAuthorizer(r.Context(), authorizer(perm)))
		}
		handler.ServeHTTP(rw, r)
	})
	rec := httptest.NewRecorder()
	if enc == "s" || enc == "k" {
		srv := httptest.NewServer(withAuth)
		req, err := http.NewRequest("POST", srv.URL+"/api/v2/write?"+q.Encode(), body)
		if err != nil {
			srv.Close()
			return "client-error"
		}
		resp, err := srv.Client().Do(req)
		if err != nil {
			srv.Close()
			return "client-error"
		}
		rec.Code = resp.StatusCode
		io.Copy(rec.Body, resp.Body)
		resp.Body.Close()
		srv.Close()
	} else {
		r := httptest.NewRequest("POST", "http://localhost:8086/api/v2/write?"+q.Encode(), body)
		if header != "" {
			r.Header.Set("Content-Encoding", header)
		}
		withAuth.ServeHTTP(rec, r)
	}

	code, named, dropped := "-", "-", "-"
	if rec.Code >= 300 {
		var e struct {
			Code    string `json:"code"`
			Message string `json:"message"`
		}
		if err := json.Unmarshal(rec.Body.Bytes(), &e); err != nil {
			code = "unparsable-body"
		} else {
			code = tokOfCode[e.Code]
			if code == "" {
				code = "unknown-code"
			}
			// the lines named in the message, in the order they are named
			type hit struct{ pos, idx int }
			var hits []hit
			for i, l := range ls {
				if len(bytes.TrimSpace(l.text)) == 0 {
					continue
				}
				needle := "unable to parse '" + string(bytes.TrimLeft(l.text, " \t")) + "': "
				if p := strings.Index(e.Message, needle); p >= 0 {
					hits = append(hits, hit{p, i})
				}
			}
			sort.Slice(hits, func(a, b int) bool { return hits[a].pos < hits[b].pos })
			var ids []int64
			for _, x := range hits {
				ids = append(ids, int64(x.idx))
			}
			named = h.Ints(ids)
			if m := regexp.MustCompile(`dropped=([0-9]+)`).FindStringSubmatch(e.Message); m != nil {
				dropped = m[1]
			}
		}
	}
	writes := "none"
	if len(w.calls) > 0 {
		var cs []string
		for _, c := range w.calls {
			cs = append(cs, h.Ints(c))
		}
		writes = strings.Join(cs, ";")
	}
	return fmt.Sprintf("%d %s %s %s %s", rec.Code, code, named, dropped, writes)
}

func patternData(n int) []byte {
	b := make([]byte, n)
	for i := range b {
		b[i] = byte((7*i + 3) % 256)
	}
	return b
}

func opL(t []string) string {
	if len(t) != 7 {
		return "bad-op"
	}
	limit, size := h.Atoi(t[0]), int(h.Atoi(t[1]))
	data := patternData(size)
	src := &scriptReader{data: append([]byte(nil), data...), chunks: h.ParseInts(t[2]), eager: t[3] == "1", term: termErr(t[4]), closeErr: t[5] == "1"}
	l := io2.NewLimitedReadCloser(src, limit)
	var out []string
	var got []byte
	for _, s := range h.Split(t[6]) {
		if s == "c" {
			out = append(out, "c/"+errTok(l.Close()))
			continue
		}
		k := int(h.Atoi(s[1:]))
		p := make([]byte, k)
		n, err := l.Read(p)
		got = append(got, p[:n]...)
		out = append(out, strconv.Itoa(n)+"/"+errTok(err))
	}
	return h.Join(out) + " " + h.B(bytes.HasPrefix(data, got)) + " " + strconv.Itoa(src.closes)
}

func op(t []string) string {
	if len(t) == 0 {
		return "bad-op"
	}
	switch t[0] {
	case "w":
		return opW(t[1:])
	case "l":
		return opL(t[1:])
	}
	return "bad-op"
}

// ---------------------------------------------------------------- generator

func goodLine(r *h.Rand, i int) string {
	m := "m" + strconv.Itoa(i)
	switch r.Intn(8) {
	case 0:
		return m + " v=1"
	case 1:
		return m + ",t=a v=1.5 " + strconv.FormatInt(r.Range(0, 1700000000), 10)
	case 2:
		return m + ",host=h" + strconv.Itoa(i) + ",r=us f=1i,g=\"s t\",h=true 1609459200"
	case 3:
		return m + ` v="a\"b,c=d"`
	case 4:
		return "  " + m + " v=-2e3"
	case 5:
		return m + `,t\ x=a\,b v=7u`
	case 6:
		return m + " " + strings.Repeat("f", r.Intn(40)+1) + "=t"
	}
	return m + ",a=1,b=2 x=1,y=2 -5"
}

func badLine(r *h.Rand, i int) string {
	m := "m" + strconv.Itoa(i)
	switch r.Intn(8) {
	case 0:
		return m
	case 1:
		return m + " v="
	case 2:
		return m + ",t v=1"
	case 3:
		return m + " v=1 abc"
	case 4:
		return m + " v=1.2.3"
	case 5:
		return ",t" + strconv.Itoa(i) + "=a v=1"
	case 6:
		return m + " v=1i2"
	}
	return m + ",t=a"
}

func otherLine(r *h.Rand, i int) string {
	switch r.Intn(4) {
	case 0:
		return "# comment " + strconv.Itoa(i)
	case 1:
		return ""
	case 2:
		return "   "
	}
	return "#"
}

var svcCodes = []string{"internal", "notimpl", "invalid", "unproc", "empty", "conflict", "notfound", "unavail", "forbidden", "toomany", "unauth", "method", "toolarge", "plain"}

func genChunks(r *h.Rand, size int) []int64 {
	var cs []int64
	switch r.Intn(5) {
	case 0: // whole
	case 1: // byte by byte for a while
		for i := 0; i < r.Intn(20); i++ {
			cs = append(cs, 1)
		}
	case 2: // random small pieces, some empty reads
		for i := 0; i < r.Intn(12); i++ {
			cs = append(cs, r.Range(0, 9))
		}
	case 3: // one piece ending exactly at / around the end
		if size > 0 {
			cs = append(cs, int64(size)+r.Range(-1, 1))
		}
	case 4:
		for i := 0; i < r.Intn(6); i++ {
			cs = append(cs, r.Range(0, int64(size)+2))
		}
	}
	return cs
}

func genW(r *h.Rand, big bool) string {
	// lines
	nl := r.Intn(9)
	if r.Chance(0.05) {
		nl = 0
	}
	if big {
		nl = 20 + r.Intn(120)
	}
	malformed := r.Chance(0.35)
	var toks []string
	size := 0
	for i := 0; i < nl; i++ {
		var tag byte
		var text string
		x := r.Intn(10)
		switch {
		case malformed && x < 3:
			tag, text = 'b', badLine(r, i)
		case x == 9:
			tag, text = 'c', otherLine(r, i)
		default:
			tag, text = 'g', goodLine(r, i)
		}
		toks = append(toks, string(tag)+h.HexS(text))
		if i > 0 {
			size++
		}
		size += len(text)
	}
	if nl > 0 && r.Chance(0.3) { // trailing newline
		toks = append(toks, "c-")
		size++
	}
	// limit around the size
	var limit int64
	switch r.Intn(10) {
	case 0, 1, 2:
		limit = int64(size)
	case 3, 4:
		limit = int64(size) - 1
	case 5, 6:
		limit = int64(size) + 1
	case 7:
		limit = r.Range(1, int64(size)+1)
	case 8:
		limit = int64(size) + r.Range(2, 600)
	case 9:
		limit = h.Pick(r, []int64{0, -1, 1, 511, 512, 513, 1 << 40})
	}
	enc := h.Pick(r, []string{"p", "p", "p", "p", "g", "g", "g", "x", "o"})
	term, closeErr := "eof", "0"
	if r.Chance(0.08) {
		term = h.Pick(r, []string{"other", "gzc", "gzh"})
	}
	if enc == "p" && r.Chance(0.04) {
		closeErr = "1"
	}
	if r.Chance(0.02) {
		enc = h.Pick(r, []string{"h", "e"})
	}
	if r.Chance(0.04) { // a real HTTP round trip: clean bodies only
		enc, term, closeErr = h.Pick(r, []string{"s", "k"}), "eof", "0"
	}
	auth, prec, bgiven, org, bisid, byid, byname, perm := "1", h.Pick(r, []string{"-", "ns", "us", "ms", "s"}), "1", "-", h.B(r.Bool()), "-", "-", "a"
	// about a fifth of the requests do not reach the body
	if r.Chance(0.2) {
		switch r.Intn(7) {
		case 0:
			auth = "0"
		case 1:
			prec = "bad"
		case 2:
			bgiven = "0"
		case 3:
			org = h.Pick(r, svcCodes)
		case 4:
			byid = h.Pick(r, svcCodes)
			if r.Bool() {
				byname = h.Pick(r, svcCodes)
			}
		case 5:
			byname = h.Pick(r, svcCodes)
			if r.Bool() {
				byid = "notfound"
			}
		case 6:
			perm = h.Pick(r, []string{"w", "r", "i"})
		}
	}
	writer := "ok"
	if r.Chance(0.2) {
		writer = h.Pick(r, []string{"fail", "p0", "p1", "p" + strconv.Itoa(r.Intn(1000))})
	}
	return strings.Join([]string{"w", strconv.FormatInt(limit, 10), enc, h.Ints(genChunks(r, size)), h.B(r.Chance(0.4)), term, closeErr,
		auth, prec, bgiven, org, bisid, byid, byname, perm, writer, h.Join(toks)}, " ")
}

func genL(r *h.Rand) string {
	size := r.Intn(40)
	if r.Chance(0.1) {
		size = 500 + r.Intn(100)
	}
	var limit int64
	switch r.Intn(8) {
	case 0, 1, 2:
		limit = int64(size)
	case 3:
		limit = int64(size) - 1
	case 4:
		limit = int64(size) + 1
	case 5:
		limit = r.Range(0, int64(size)+3)
	case 6:
		limit = h.Pick(r, []int64{0, -1, -5, 1})
	case 7:
		limit = int64(size) + r.Range(2, 100)
	}
	term := "eof"
	if r.Chance(0.1) {
		term = h.Pick(r, []string{"other", "gzc", "gzh"})
	}
	var steps []string
	if r.Chance(0.75) {
		// the io.ReadAll protocol: enough reads to reach the end for any script, then Close (twice)
		n := size + 30
		for i := 0; i < n; i++ {
			k := h.Pick(r, []int64{1, 2, 3, 7, 512, int64(size), int64(size) + 1})
			if k == 0 {
				k = 1
			}
			steps = append(steps, "r"+strconv.FormatInt(k, 10))
		}
		steps = append(steps, "c", "c")
	} else {
		for i := 0; i < r.Intn(12); i++ {
			if r.Chance(0.2) {
				steps = append(steps, "c")
			} else {
				steps = append(steps, "r"+strconv.FormatInt(r.Range(0, int64(size)+2), 10))
			}
		}
	}
	return strings.Join([]string{"l", strconv.FormatInt(limit, 10), strconv.Itoa(size), h.Ints(genChunks(r, size)), h.B(r.Chance(0.4)), term, h.B(r.Chance(0.15)), h.Join(steps)}, " ")
}

func gen(r *h.Rand, tier string, emit func([]string)) {
	nw, nl, nbig := 6000, 3000, 150
	if tier == "thorough" {
		nw, nl, nbig = 60000, 30000, 1500
	}
	var buf []string
	flush := func() {
		if len(buf) > 0 {
			emit(buf)
			buf = nil
		}
	}
	add := func(s string) {
		buf = append(buf, s)
		if len(buf) >= 50 {
			flush()
		}
	}
	for i := 0; i < nw; i++ {
		add(genW(r, false))
	}
	for i := 0; i < nbig; i++ {
		add(genW(r, true))
	}
	for i := 0; i < nl; i++ {
		add(genL(r))
	}
	flush()
}

func main() { h.Main(h.Harness{Gen: gen, NewCase: h.Stateless(op)}) }
