// Harness for C29: the real authorizer.NewBucketService / NewOrgService / NewUserService over the
// real tenant.Service on inmem kv, and authorizer.NewAuthorizationService over the real
// authorization.Service (raw tokens), called with an influxdb.Authorization as authorizer on the
// context (icontext.SetAuthorizer).
//
// Ops:
//
//	a <tenant op…>                          set-up directly on the tenant service (protocol of cmd/c30)
//	aa <org> <user> <token> <a|i> <perms>   set-up: CreateAuthorization directly on the token service
//	idgen-a <n>                             next id of the token store's id generator := n
//	w <present> <active> <uid> <perms> <call…>   one call through the wrappers with that caller
//	dump                                    raw tenant kv + token store
//
// perms: comma list of <actionHex>:<typeHex>:<id|->:<org|->  ("-" = no permission).
// calls: gb id | fb org name | fB org name | lb org|- | cb org name u|s | ub id name|~ | db id |
//
//	go id | fo name | lo | co name | uo id name|~ | do id | gu id | fu name | lu | cu name id |
//	uu id name|~ | du id | pu id | ga id | ft token | la | ca org user token a|i perms | ua id a|i | da id
//	ga2 | ft2 | la2 | ca2 | ua2 | da2: the same six through authorization.NewAuthedAuthorizationService
//
// Answers of wrapped calls: `err <class> chg=<0|1>` (chg: did any byte of any kv bucket change),
// reads `ok <resources with their attributes>`, mutations `ok <id> pre=<org>:<user>|-`.
package main

import (
	"context"
	"crypto/sha256"
	"sort"
	"strconv"
	"strings"

	influxdb "github.com/influxdata/influxdb/v2"
	"github.com/influxdata/influxdb/v2/authorization"
	"github.com/influxdata/influxdb/v2/authorizer"
	icontext "github.com/influxdata/influxdb/v2/context"
	"github.com/influxdata/influxdb/v2/kit/platform"
	"github.com/influxdata/influxdb/v2/kit/platform/errors"
	"github.com/influxdata/influxdb/v2/kv"
	"verif/harness/cmd/c30/tops"
	"verif/harness/h"
)

type counter struct{ next uint64 }

func (c *counter) ID() platform.ID { v := c.next; c.next++; return platform.ID(v) }

type runner struct {
	t    *tops.Runner
	ag   *counter
	auth influxdb.AuthorizationService // unwrapped
	wb   *authorizer.BucketService
	wo   *authorizer.OrgService
	wu   *authorizer.UserService
	wa   influxdb.AuthorizationService // authorizer.NewAuthorizationService
	wa2  influxdb.AuthorizationService // authorization.NewAuthedAuthorizationService (middleware_auth.go)
}

func newCase() h.CaseRunner {
	t := tops.New()
	st, err := authorization.NewStore(context.Background(), t.KV, false)
	if err != nil {
		panic(err)
	}
	r := &runner{t: t, ag: &counter{5001}}
	st.IDGen = r.ag
	r.auth = authorization.NewService(st, t.Svc)
	r.wb = authorizer.NewBucketService(t.Svc)
	r.wo = authorizer.NewOrgService(t.Svc)
	r.wu = authorizer.NewUserService(t.Svc)
	r.wa = authorizer.NewAuthorizationService(r.auth)
	r.wa2 = authorization.NewAuthedAuthorizationService(r.auth, t.Svc)
	return r
}

func (r *runner) Close() {}

func code(err error) string {
	switch c := errors.ErrorCode(err); c {
	case errors.EUnauthorized:
		return "unauth"
	case errors.EForbidden:
		return "forbidden"
	case errors.ENotFound:
		return "nf"
	case errors.EConflict:
		return "cf"
	case errors.EInvalid:
		return "inv"
	case errors.EInternal:
		return "int"
	default:
		return strings.ReplaceAll(c, " ", "_")
	}
}

func optID(s string) (*platform.ID, bool) {
	if s == "-" {
		return nil, true
	}
	id, ok := tops.IDTok(s)
	if !ok {
		return nil, false
	}
	return &id, true
}

func parsePerms(s string) ([]influxdb.Permission, bool) {
	if s == "-" {
		return nil, true
	}
	var out []influxdb.Permission
	for _, it := range strings.Split(s, ",") {
		f := strings.Split(it, ":")
		if len(f) != 4 {
			return nil, false
		}
		a, ok1 := tops.NameTok(f[0])
		ty, ok2 := tops.NameTok(f[1])
		id, ok3 := optID(f[2])
		org, ok4 := optID(f[3])
		if !ok1 || !ok2 || !ok3 || !ok4 {
			return nil, false
		}
		out = append(out, influxdb.Permission{Action: influxdb.Action(a), Resource: influxdb.Resource{Type: influxdb.ResourceType(ty), ID: id, OrgID: org}})
	}
	return out, true
}

func flag(s, t, f string) (bool, bool) {
	if s == t {
		return true, true
	}
	if s == f {
		return false, true
	}
	return false, false
}

func status(active bool) influxdb.Status {
	if active {
		return influxdb.Active
	}
	return influxdb.Inactive
}

// fingerprint of every byte stored in the kv store
func (r *runner) fingerprint() [32]byte {
	hs := sha256.New()
	var names []string
	for _, b := range r.t.KV.Buckets(context.Background()) {
		names = append(names, string(b))
	}
	sort.Strings(names)
	for _, n := range names {
		hs.Write([]byte("\x00B" + n))
		for _, p := range r.t.Pairs(n) {
			hs.Write([]byte("\x00K"))
			hs.Write(p[0])
			hs.Write([]byte("\x00V"))
			hs.Write(p[1])
		}
	}
	var out [32]byte
	copy(out[:], hs.Sum(nil))
	return out
}

func u(i platform.ID) string { return tops.U(i) }

func bkt(b *influxdb.Bucket) string {
	ty := "u"
	if b.Type == influxdb.BucketTypeSystem {
		ty = "s"
	}
	return u(b.ID) + ":" + u(b.OrgID) + ":" + ty
}

func aut(a *influxdb.Authorization) string { return u(a.ID) + ":" + u(a.OrgID) + ":" + u(a.UserID) }

func sortedJoin(xs []string, key func(string) uint64) string {
	sort.SliceStable(xs, func(i, j int) bool { return key(xs[i]) < key(xs[j]) })
	return h.Join(xs)
}

func firstNum(s string) uint64 {
	if i := strings.IndexByte(s, ':'); i >= 0 {
		s = s[:i]
	}
	v, _ := strconv.ParseUint(s, 10, 64)
	return v
}

func (r *runner) Op(t []string) string {
	bad := "bad-op"
	if len(t) == 0 {
		return bad
	}
	ctx := context.Background()
	switch t[0] {
	case "a":
		if len(t) < 2 || t[1] == "dump" {
			return bad
		}
		return r.t.Op(t[1:])
	case "aa":
		if len(t) != 6 {
			return bad
		}
		org, ok1 := tops.IDTok(t[1])
		us, ok2 := tops.IDTok(t[2])
		tok, ok3 := tops.NameTok(t[3])
		act, ok4 := flag(t[4], "a", "i")
		ps, ok5 := parsePerms(t[5])
		if !ok1 || !ok2 || !ok3 || !ok4 || !ok5 || tok == "" {
			return bad
		}
		before := r.fingerprint()
		a := &influxdb.Authorization{OrgID: org, UserID: us, Token: tok, Status: status(act), Permissions: ps}
		if err := r.auth.CreateAuthorization(ctx, a); err != nil {
			return "err " + code(err) + " chg=" + h.B(before != r.fingerprint())
		}
		return "ok " + u(a.ID) + " pre=-"
	case "idgen-a":
		if len(t) != 2 {
			return bad
		}
		n, ok := tops.IDTok(t[1])
		if !ok {
			return bad
		}
		r.ag.next = uint64(n)
		return "ok"
	case "dump":
		if len(t) != 1 {
			return bad
		}
		return r.t.Dump() + " " + r.dumpAuth()
	case "w":
		if len(t) < 6 {
			return bad
		}
		present, ok1 := flag(t[1], "1", "0")
		active, ok2 := flag(t[2], "1", "0")
		uid, ok3 := tops.IDTok(t[3])
		ps, ok4 := parsePerms(t[4])
		if !ok1 || !ok2 || !ok3 || !ok4 {
			return bad
		}
		if present {
			ctx = icontext.SetAuthorizer(ctx, &influxdb.Authorization{ID: 77, Status: status(active), UserID: uid, Permissions: ps})
		}
		return r.call(ctx, t[5:])
	}
	return bad
}

func (r *runner) call(ctx context.Context, t []string) string {
	bad := "bad-op"
	bg := context.Background()
	before := r.fingerprint()
	fail := func(err error) string { return "err " + code(err) + " chg=" + h.B(before != r.fingerprint()) }
	ids := func(n int) ([]platform.ID, bool) { // t[1..n] are ids
		out := make([]platform.ID, n)
		for i := 0; i < n; i++ {
			v, ok := tops.IDTok(t[1+i])
			if !ok {
				return nil, false
			}
			out[i] = v
		}
		return out, true
	}
	wa := r.wa
	if n := len(t[0]); n == 3 && t[0][2] == '2' && strings.Contains("ga2 ft2 la2 ca2 ua2 da2", t[0]) {
		wa = r.wa2
		t = append([]string{t[0][:2]}, t[1:]...)
	}
	switch {
	case t[0] == "gb" && len(t) == 2:
		id, ok := ids(1)
		if !ok {
			return bad
		}
		b, err := r.wb.FindBucketByID(ctx, id[0])
		if err != nil {
			return fail(err)
		}
		return "ok " + bkt(b)
	case (t[0] == "fb" || t[0] == "fB") && len(t) == 3:
		id, ok := ids(1)
		n, ok2 := tops.NameTok(t[2])
		if !ok || !ok2 {
			return bad
		}
		var b *influxdb.Bucket
		var err error
		if t[0] == "fb" {
			b, err = r.wb.FindBucketByName(ctx, id[0], n)
		} else {
			b, err = r.wb.FindBucket(ctx, influxdb.BucketFilter{OrganizationID: &id[0], Name: &n})
		}
		if err != nil {
			return fail(err)
		}
		return "ok " + bkt(b)
	case t[0] == "lb" && len(t) == 2:
		f := influxdb.BucketFilter{}
		if t[1] != "-" {
			id, ok := ids(1)
			if !ok {
				return bad
			}
			f.OrganizationID = &id[0]
		}
		bs, _, err := r.wb.FindBuckets(ctx, f)
		if err != nil {
			return fail(err)
		}
		var out []string
		for _, b := range bs {
			out = append(out, bkt(b))
		}
		return "ok " + sortedJoin(out, firstNum)
	case t[0] == "cb" && len(t) == 4:
		id, ok := ids(1)
		n, ok2 := tops.NameTok(t[2])
		sys, ok3 := flag(t[3], "s", "u")
		if !ok || !ok2 || !ok3 {
			return bad
		}
		b := &influxdb.Bucket{OrgID: id[0], Name: n}
		if sys {
			b.Type = influxdb.BucketTypeSystem
		}
		if err := r.wb.CreateBucket(ctx, b); err != nil {
			return fail(err)
		}
		return "ok " + u(b.ID) + " pre=-"
	case (t[0] == "ub" || t[0] == "db") && len(t) == 2+b2i(t[0] == "ub"):
		id, ok := ids(1)
		if !ok {
			return bad
		}
		pre := "-"
		if b, err := r.t.Svc.FindBucketByID(bg, id[0]); err == nil {
			pre = u(b.OrgID) + ":0"
		}
		if t[0] == "ub" {
			n, ok2 := tops.OptName(t[2])
			if !ok2 {
				return bad
			}
			d := "d"
			b, err := r.wb.UpdateBucket(ctx, id[0], influxdb.BucketUpdate{Name: n, Description: &d})
			if err != nil {
				return fail(err)
			}
			return "ok " + u(b.ID) + " pre=" + pre
		}
		if err := r.wb.DeleteBucket(ctx, id[0]); err != nil {
			return fail(err)
		}
		return "ok " + u(id[0]) + " pre=" + pre
	case t[0] == "go" && len(t) == 2:
		id, ok := ids(1)
		if !ok {
			return bad
		}
		o, err := r.wo.FindOrganizationByID(ctx, id[0])
		if err != nil {
			return fail(err)
		}
		return "ok " + u(o.ID)
	case t[0] == "fo" && len(t) == 2:
		n, ok := tops.NameTok(t[1])
		if !ok {
			return bad
		}
		o, err := r.wo.FindOrganization(ctx, influxdb.OrganizationFilter{Name: &n})
		if err != nil {
			return fail(err)
		}
		return "ok " + u(o.ID)
	case t[0] == "lo" && len(t) == 1:
		os, _, err := r.wo.FindOrganizations(ctx, influxdb.OrganizationFilter{})
		if err != nil {
			return fail(err)
		}
		var out []string
		for _, o := range os {
			out = append(out, u(o.ID))
		}
		return "ok " + sortedJoin(out, firstNum)
	case t[0] == "co" && len(t) == 2:
		n, ok := tops.NameTok(t[1])
		if !ok {
			return bad
		}
		o := &influxdb.Organization{Name: n}
		if err := r.wo.CreateOrganization(ctx, o); err != nil {
			return fail(err)
		}
		return "ok " + u(o.ID) + " pre=-"
	case t[0] == "uo" && len(t) == 3:
		id, ok := ids(1)
		n, ok2 := tops.OptName(t[2])
		if !ok || !ok2 {
			return bad
		}
		d := "d"
		o, err := r.wo.UpdateOrganization(ctx, id[0], influxdb.OrganizationUpdate{Name: n, Description: &d})
		if err != nil {
			return fail(err)
		}
		return "ok " + u(o.ID) + " pre=-"
	case t[0] == "do" && len(t) == 2:
		id, ok := ids(1)
		if !ok {
			return bad
		}
		if err := r.wo.DeleteOrganization(ctx, id[0]); err != nil {
			return fail(err)
		}
		return "ok " + u(id[0]) + " pre=-"
	case t[0] == "gu" && len(t) == 2:
		id, ok := ids(1)
		if !ok {
			return bad
		}
		us, err := r.wu.FindUserByID(ctx, id[0])
		if err != nil {
			return fail(err)
		}
		return "ok " + u(us.ID)
	case t[0] == "fu" && len(t) == 2:
		n, ok := tops.NameTok(t[1])
		if !ok {
			return bad
		}
		us, err := r.wu.FindUser(ctx, influxdb.UserFilter{Name: &n})
		if err != nil {
			return fail(err)
		}
		return "ok " + u(us.ID)
	case t[0] == "lu" && len(t) == 1:
		us, _, err := r.wu.FindUsers(ctx, influxdb.UserFilter{})
		if err != nil {
			return fail(err)
		}
		var out []string
		for _, x := range us {
			out = append(out, u(x.ID))
		}
		return "ok " + sortedJoin(out, firstNum)
	case t[0] == "cu" && len(t) == 3:
		n, ok := tops.NameTok(t[1])
		id, ok2 := tops.IDTok(t[2])
		if !ok || !ok2 {
			return bad
		}
		us := &influxdb.User{Name: n, ID: id, Status: influxdb.Active}
		if err := r.wu.CreateUser(ctx, us); err != nil {
			return fail(err)
		}
		return "ok " + u(us.ID) + " pre=-"
	case t[0] == "uu" && len(t) == 3:
		id, ok := ids(1)
		n, ok2 := tops.OptName(t[2])
		if !ok || !ok2 {
			return bad
		}
		st := influxdb.Inactive
		us, err := r.wu.UpdateUser(ctx, id[0], influxdb.UserUpdate{Name: n, Status: &st})
		if err != nil {
			return fail(err)
		}
		return "ok " + u(us.ID) + " pre=-"
	case t[0] == "du" && len(t) == 2:
		id, ok := ids(1)
		if !ok {
			return bad
		}
		if err := r.wu.DeleteUser(ctx, id[0]); err != nil {
			return fail(err)
		}
		return "ok " + u(id[0]) + " pre=-"
	case t[0] == "pu" && len(t) == 2:
		id, ok := ids(1)
		if !ok {
			return bad
		}
		if _, err := r.wu.FindPermissionForUser(ctx, id[0]); err != nil {
			return fail(err)
		}
		return "ok"
	case t[0] == "ga" && len(t) == 2:
		id, ok := ids(1)
		if !ok {
			return bad
		}
		a, err := wa.FindAuthorizationByID(ctx, id[0])
		if err != nil {
			return fail(err)
		}
		return "ok " + aut(a)
	case t[0] == "ft" && len(t) == 2:
		tok, ok := tops.NameTok(t[1])
		if !ok || tok == "" {
			return bad
		}
		a, err := wa.FindAuthorizationByToken(ctx, tok)
		if err != nil {
			return fail(err)
		}
		return "ok " + aut(a)
	case t[0] == "la" && len(t) == 1:
		as, _, err := wa.FindAuthorizations(ctx, influxdb.AuthorizationFilter{})
		if err != nil {
			return fail(err)
		}
		var out []string
		for _, a := range as {
			out = append(out, aut(a))
		}
		return "ok " + sortedJoin(out, firstNum)
	case t[0] == "ca" && len(t) == 6:
		id, ok := ids(2)
		tok, ok2 := tops.NameTok(t[3])
		act, ok3 := flag(t[4], "a", "i")
		ps, ok4 := parsePerms(t[5])
		if !ok || !ok2 || !ok3 || !ok4 || tok == "" {
			return bad
		}
		a := &influxdb.Authorization{OrgID: id[0], UserID: id[1], Token: tok, Status: status(act), Permissions: ps}
		if err := wa.CreateAuthorization(ctx, a); err != nil {
			return fail(err)
		}
		return "ok " + u(a.ID) + " pre=-"
	case (t[0] == "ua" && len(t) == 3) || (t[0] == "da" && len(t) == 2):
		id, ok := ids(1)
		if !ok {
			return bad
		}
		pre := "-"
		if a, err := r.auth.FindAuthorizationByID(bg, id[0]); err == nil {
			pre = u(a.OrgID) + ":" + u(a.UserID)
		}
		if t[0] == "ua" {
			act, ok2 := flag(t[2], "a", "i")
			if !ok2 {
				return bad
			}
			st := status(act)
			a, err := wa.UpdateAuthorization(ctx, id[0], &influxdb.AuthorizationUpdate{Status: &st})
			if err != nil {
				return fail(err)
			}
			return "ok " + u(a.ID) + " pre=" + pre
		}
		if err := wa.DeleteAuthorization(ctx, id[0]); err != nil {
			return fail(err)
		}
		return "ok " + u(id[0]) + " pre=" + pre
	}
	return bad
}

func b2i(b bool) int {
	if b {
		return 1
	}
	return 0
}

func permStr(p influxdb.Permission) string {
	f := func(i *platform.ID) string {
		if i == nil {
			return "-"
		}
		return u(*i)
	}
	return h.HexS(string(p.Action)) + ":" + h.HexS(string(p.Resource.Type)) + ":" + f(p.Resource.ID) + ":" + f(p.Resource.OrgID)
}

func (r *runner) dumpAuth() string {
	as, _, err := r.auth.FindAuthorizations(context.Background(), influxdb.AuthorizationFilter{})
	if err != nil {
		panic(err)
	}
	sort.Slice(as, func(i, j int) bool { return as[i].ID < as[j].ID })
	var it []string
	for _, a := range as {
		var ps []string
		for _, p := range a.Permissions {
			ps = append(ps, permStr(p))
		}
		it = append(it, u(a.ID)+"|"+h.HexS(a.Token)+"|"+map[bool]string{true: "a", false: "i"}[a.Status == influxdb.Active]+"|"+u(a.UserID)+"|"+u(a.OrgID)+"|"+h.Join(ps))
	}
	out := "A=" + joinSemi(it)
	it = nil
	_ = r.t.KV.View(context.Background(), func(tx kv.Tx) error { return nil })
	for _, p := range r.t.Pairs("authorizationindexv1") {
		it = append(it, h.Hex(p[0])+"|"+tops.IDKey(p[1]))
	}
	return out + " TI=" + joinSemi(it)
}

func joinSemi(xs []string) string {
	if len(xs) == 0 {
		return "-"
	}
	return strings.Join(xs, ";")
}

// ---- generator --------------------------------------------------------------

var rtypes = []string{"buckets", "orgs", "users", "authorizations", "tasks", "instance"}

func gen(r *h.Rand, tier string, emit func([]string)) {
	ncases, nops := 1200, 40
	if tier == "thorough" {
		ncases, nops = 6000, 60
	}
	names := []string{"a", "b", "c", "x", "y", "_z", "a "}
	for c := 0; c < ncases; c++ {
		var ops []string
		// set-up: users 2001.., orgs 1.., buckets 1001.. (two system buckets per org), tokens 5001..
		nu := 1 + r.Intn(3)
		for i := 0; i < nu; i++ {
			ops = append(ops, "a cu "+h.HexS("u"+strconv.Itoa(i))+" 0")
		}
		no := 1 + r.Intn(2)
		for i := 0; i < no; i++ {
			ops = append(ops, "a co "+h.HexS("o"+strconv.Itoa(i))+" "+h.Pick(r, []string{"0", "2001"}))
			nb := r.Intn(3)
			for j := 0; j < nb; j++ {
				ops = append(ops, "a cb "+strconv.Itoa(i+1)+" "+h.HexS(h.Pick(r, names))+" u")
			}
		}
		orgs := []string{"0", "1", "2", "1", "2", "3"}
		bkts := []string{"0", "1001", "1002", "1003", "1004", "1005", "1003", "1004", "1005", "1006", "1007", "1008"}
		users := []string{"0", "2001", "2002", "2001", "2002", "2003", "2004"}
		auths := []string{"0", "5001", "5002", "5001", "5002", "5003", "5004", "77"}
		optid := func(xs []string) string {
			if r.Chance(0.5) {
				return "-"
			}
			return h.Pick(r, xs[1:])
		}
		perm := func() string {
			a := h.Pick(r, []string{"read", "write", "write", "read", "write", "Write"})
			ty := h.Pick(r, []string{"buckets", "buckets", "orgs", "orgs", "users", "users", "authorizations", "authorizations", "tasks", "instance"})
			var id, org string
			switch ty {
			case "buckets":
				id, org = optid(bkts), optid(orgs[:3])
			case "orgs":
				id, org = optid(orgs[:3]), h.Pick(r, []string{"-", "-", "-", "1", "2"})
			case "users":
				id, org = optid(users[:4]), "-"
			case "authorizations":
				id, org = optid(auths[:4]), optid(orgs[:3])
			default:
				id, org = "-", optid(orgs)
			}
			if r.Chance(0.03) {
				id = "0"
			}
			return h.HexS(a) + ":" + h.HexS(ty) + ":" + id + ":" + org
		}
		admin := func() string {
			var ps []string
			for _, ty := range []string{"buckets", "orgs", "users", "authorizations"} {
				for _, a := range []string{"read", "write"} {
					if r.Chance(0.85) {
						ps = append(ps, h.HexS(a)+":"+h.HexS(ty)+":-:-")
					}
				}
			}
			if len(ps) == 0 {
				return "-"
			}
			return strings.Join(ps, ",")
		}
		perms := func(max int) string {
			n := r.Intn(max + 1)
			if n == 0 {
				return "-"
			}
			var ps []string
			for i := 0; i < n; i++ {
				ps = append(ps, perm())
			}
			return strings.Join(ps, ",")
		}
		ntok := 0
		tok := func() string { return h.HexS("tok" + strconv.Itoa(r.Intn(4))) }
		if r.Chance(0.8) {
			ops = append(ops, "aa 1 2001 "+h.HexS("tok0")+" "+h.Pick(r, []string{"a", "a", "i"})+" "+perms(3))
			ntok++
		}
		// a caller is kept for a few calls so that related calls see the same permissions
		var caller string
		newCaller := func() {
			present, active := "1", "1"
			if r.Chance(0.05) {
				present = "0"
			}
			if r.Chance(0.1) {
				active = "0"
			}
			p := perms(6)
			switch k := r.Intn(10); {
			case k < 3:
				p = admin()
			case k < 4:
				p = h.HexS(h.Pick(r, []string{"read", "write"})) + ":" + h.HexS("instance") + ":-:-"
			}
			caller = present + " " + active + " " + h.Pick(r, users) + " " + p
		}
		newCaller()
		oname := func() string {
			if r.Chance(0.3) {
				return "~"
			}
			return h.HexS(h.Pick(r, names))
		}
		n := 8 + r.Intn(nops)
		for i := 0; i < n; i++ {
			if r.Chance(0.3) {
				newCaller()
			}
			var call string
			switch k := r.Intn(100); {
			case k < 6:
				call = "gb " + h.Pick(r, bkts)
			case k < 10:
				call = h.Pick(r, []string{"fb ", "fB "}) + h.Pick(r, orgs) + " " + h.HexS(h.Pick(r, append(names, "_tasks", "_monitoring")))
			case k < 16:
				call = "lb " + h.Pick(r, append(orgs, "-", "-"))
			case k < 22:
				call = "cb " + h.Pick(r, orgs) + " " + h.HexS(h.Pick(r, names)) + " " + h.Pick(r, []string{"u", "u", "s"})
			case k < 28:
				call = "ub " + h.Pick(r, bkts) + " " + oname()
			case k < 33:
				call = "db " + h.Pick(r, bkts)
			case k < 37:
				call = "go " + h.Pick(r, orgs)
			case k < 40:
				call = "fo " + h.HexS(h.Pick(r, []string{"o0", "o1", "a", "o0 "}))
			case k < 45:
				call = "lo"
			case k < 48:
				call = "co " + h.HexS(h.Pick(r, []string{"o0", "o1", "o2", "a", " "}))
			case k < 52:
				call = "uo " + h.Pick(r, orgs) + " " + h.Pick(r, []string{"~", h.HexS("o0"), h.HexS("o9")})
			case k < 55:
				call = "do " + h.Pick(r, orgs)
			case k < 58:
				call = "gu " + h.Pick(r, users)
			case k < 60:
				call = "fu " + h.HexS(h.Pick(r, []string{"u0", "u1", "u9"}))
			case k < 64:
				call = "lu"
			case k < 67:
				call = "cu " + h.HexS(h.Pick(r, []string{"u0", "u7", "u8"})) + " " + h.Pick(r, []string{"0", "0", "7"})
			case k < 70:
				call = "uu " + h.Pick(r, users) + " " + h.Pick(r, []string{"~", h.HexS("u0"), h.HexS("u9")})
			case k < 72:
				call = "du " + h.Pick(r, users)
			case k < 73:
				call = "pu " + h.Pick(r, users)
			case k < 77:
				call = "ga " + h.Pick(r, auths)
			case k < 80:
				call = "ft " + tok()
			case k < 85:
				call = "la"
			case k < 93:
				call = "ca " + h.Pick(r, orgs) + " " + h.Pick(r, users) + " " + tok() + " " + h.Pick(r, []string{"a", "a", "i"}) + " " + perms(3)
			case k < 97:
				call = "ua " + h.Pick(r, auths) + " " + h.Pick(r, []string{"a", "i"})
			default:
				call = "da " + h.Pick(r, auths)
			}
			if f := strings.Fields(call); r.Chance(0.35) && strings.Contains("ga ft la ca ua da", f[0]) && len(f[0]) == 2 {
				call = f[0] + "2" + call[2:]
			}
			ops = append(ops, "w "+caller+" "+call)
			if r.Chance(0.05) {
				ops = append(ops, "aa "+h.Pick(r, orgs)+" "+h.Pick(r, users)+" "+tok()+" "+h.Pick(r, []string{"a", "i"})+" "+perms(3))
			}
			if r.Chance(0.01) {
				ops = append(ops, "idgen-a "+h.Pick(r, []string{"1", "950", "5001"}))
			}
			if r.Chance(0.15) {
				ops = append(ops, "dump")
			}
		}
		ops = append(ops, "dump")
		if r.Chance(0.05) {
			ops = append(ops, h.Pick(r, []string{"w 1 1 2001 - gb", "w 1 1 2001 zz gb 1", "w 2 1 2001 - lo", "a dump", "aa 1 2001 - a -", "w 1 1 2001 - ft -", "x"}))
		}
		emit(ops)
	}
}

func main() { h.Main(h.Harness{Gen: gen, NewCase: newCase}) }
