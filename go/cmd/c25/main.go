// Harness for C25 ("only active tasks are scheduled").
//
// Real code driven in-process:
//
//	middleware.New(fake TaskService, coordinator.NewCoordinator(recording scheduler, recording executor))
//	  .CreateTask / .UpdateTask / .DeleteTask / .CancelRun / .ForceRun / .RetryRun
//	backend.NotifyCoordinatorOfExisting / backend.TaskNotifyCoordinatorOfExisting   (op `restart`)
//	coordinator.NewSchedulableTask, scheduler.NewSchedule, options.Options.Validate, Task.EffectiveCron
//
// The fake TaskService is an in-memory re-statement of kv.Service's task
// create/update/delete/find (kv/task.go) without Flux parsing: the "Flux" of a
// task is the mini format `c|e <spec> <offsetSeconds>`, turned into a real
// options.Options and validated by the real options.Options.Validate.
//
// Protocol (one case = one history over one service):
//
//	create  <a|i|d> <c|e> <hexspec> <offsetSec> <valid>
//	update  <id> <a|i|-> (<c|e> <hexspec> <offsetSec> <valid> | -)
//	optupd  <id> <hexEvery|_> <hexCron|_> <offsetSec|_> <valid>   OPTIONS-ONLY patch: TaskUpdate{Options:{Every,Cron,Offset}}
//	delete  <id>
//	restart <L|N|M> <pageSize>        new scheduler+coordinator, then notify-of-existing
//	cancel  <id> <run>  |  force <id> <scheduledFor>  |  retry <id> <run>
//
// Answer: <result>|<calls>|<tasks>|<scheduled>
//
//	result    ok:<id> | ok | err:notfound | err:invalid | err:sched | err:other
//	calls     scheduler/executor calls made by the op, in order: S<id> R<id> C<run> M<task>.<run> F<task>.<run>
//	tasks     the service's tasks sorted by id:  id:status:hex(cron):hex(every):offsetSec
//	scheduled what the scheduler holds, sorted by id:  id:hex(effectiveCron):offsetSec
package main

import (
	"context"
	"errors"
	"fmt"
	"sort"
	"strconv"
	"strings"
	"sync"
	"time"

	"github.com/influxdata/influxdb/v2/kit/platform"
	"github.com/influxdata/influxdb/v2/task/backend"
	"github.com/influxdata/influxdb/v2/task/backend/coordinator"
	"github.com/influxdata/influxdb/v2/task/backend/executor"
	"github.com/influxdata/influxdb/v2/task/backend/middleware"
	"github.com/influxdata/influxdb/v2/task/backend/scheduler"
	"github.com/influxdata/influxdb/v2/task/options"
	"github.com/influxdata/influxdb/v2/task/taskmodel"
	"go.uber.org/zap"
	"verif/harness/h"
)

// ---------------------------------------------------------------- fake TaskService

var errInvalid = errors.New("invalid options")

type fakeSvc struct {
	mu       sync.Mutex
	tasks    map[platform.ID]*taskmodel.Task
	next     uint64
	pageSize int
	nextRun  uint64
}

func newFakeSvc() *fakeSvc {
	return &fakeSvc{tasks: map[platform.ID]*taskmodel.Task{}, next: 1, pageSize: taskmodel.TaskDefaultPageSize, nextRun: 1}
}

// parseFlux is the stand-in for options.FromScriptAST: "c|e spec offsetSec".
func parseFlux(flux string) (options.Options, error) {
	p := strings.SplitN(flux, "\x00", 3)
	if len(p) != 3 {
		return options.Options{}, errInvalid
	}
	o := options.Options{Name: "t"}
	switch p[0] {
	case "c":
		o.Cron = p[1]
	case "e":
		if p[1] != "" {
			if err := o.Every.Parse(p[1]); err != nil {
				return o, errInvalid
			}
		}
	default:
		return o, errInvalid
	}
	if p[2] != "0" {
		d := &options.Duration{}
		if err := d.Parse(p[2] + "s"); err != nil {
			return o, errInvalid
		}
		o.Offset = d
	}
	if err := o.Validate(); err != nil {
		return o, errInvalid
	}
	return o, nil
}

// encodeFlux is the inverse of parseFlux for validated options
func encodeFlux(o options.Options, off time.Duration) string {
	offS := strconv.FormatInt(int64(off/time.Second), 10)
	if o.Cron != "" {
		return "c\x00" + o.Cron + "\x00" + offS
	}
	return "e\x00" + o.Every.String() + "\x00" + offS
}

func cp(t *taskmodel.Task) *taskmodel.Task { c := *t; return &c }

func (s *fakeSvc) FindTaskByID(ctx context.Context, id platform.ID) (*taskmodel.Task, error) {
	s.mu.Lock()
	defer s.mu.Unlock()
	t, ok := s.tasks[id]
	if !ok {
		return nil, taskmodel.ErrTaskNotFound
	}
	return cp(t), nil
}

func (s *fakeSvc) sortedIDs() []platform.ID {
	ids := make([]platform.ID, 0, len(s.tasks))
	for id := range s.tasks {
		ids = append(ids, id)
	}
	sort.Slice(ids, func(i, j int) bool { return ids[i] < ids[j] })
	return ids
}

// FindTasks: id order, After exclusive, Limit (0 = default page size), as kv.findAllTasks.
func (s *fakeSvc) FindTasks(ctx context.Context, f taskmodel.TaskFilter) ([]*taskmodel.Task, int, error) {
	s.mu.Lock()
	defer s.mu.Unlock()
	lim := f.Limit
	if lim < 0 {
		return nil, 0, taskmodel.ErrPageSizeTooSmall
	}
	if lim > taskmodel.TaskMaxPageSize {
		return nil, 0, taskmodel.ErrPageSizeTooLarge
	}
	if lim == 0 {
		lim = s.pageSize
	}
	var out []*taskmodel.Task
	for _, id := range s.sortedIDs() {
		if f.After != nil && id <= *f.After {
			continue
		}
		if f.Status != nil && s.tasks[id].Status != *f.Status {
			continue
		}
		if len(out) >= lim {
			break
		}
		out = append(out, cp(s.tasks[id]))
	}
	return out, len(out), nil
}

func applyOpts(t *taskmodel.Task, o options.Options) error {
	t.Name = o.Name
	t.Every = o.Every.String()
	t.Cron = o.Cron
	t.Offset = 0
	if o.Offset != nil {
		off, err := time.ParseDuration(o.Offset.String())
		if err != nil {
			return errInvalid
		}
		t.Offset = off
	}
	return nil
}

func (s *fakeSvc) CreateTask(ctx context.Context, tc taskmodel.TaskCreate) (*taskmodel.Task, error) {
	s.mu.Lock()
	defer s.mu.Unlock()
	o, err := parseFlux(tc.Flux)
	if err != nil {
		return nil, err
	}
	if tc.Status == "" {
		tc.Status = string(taskmodel.TaskActive)
	}
	createdAt := time.Now().Truncate(time.Second).UTC()
	t := &taskmodel.Task{
		ID: platform.ID(s.next), OrganizationID: 1, Organization: "o", Status: tc.Status, Flux: tc.Flux,
		CreatedAt: createdAt, LatestCompleted: createdAt, LatestScheduled: createdAt,
	}
	if err := applyOpts(t, o); err != nil {
		return nil, err
	}
	s.next++
	s.tasks[t.ID] = t
	return cp(t), nil
}

func (s *fakeSvc) UpdateTask(ctx context.Context, id platform.ID, upd taskmodel.TaskUpdate) (*taskmodel.Task, error) {
	s.mu.Lock()
	defer s.mu.Unlock()
	old, ok := s.tasks[id]
	if !ok {
		return nil, taskmodel.ErrTaskNotFound
	}
	t := cp(old)
	updatedAt := time.Now().UTC()
	// kv.updateTask: `if !upd.Options.IsZero() || upd.Flux != nil { upd.UpdateFlux(...); options.FromScriptAST(...) }`.
	// UpdateFlux edits the task option of the Flux AST (every replaces cron and vice versa, a zero
	// offset removes the offset, both every and cron is an error); here the same patch is applied to
	// the options of the mini format and validated by the real options.Options.Validate.
	if !upd.Options.IsZero() || upd.Flux != nil {
		src := t.Flux
		if upd.Flux != nil && *upd.Flux != "" {
			src = *upd.Flux
		}
		o, err := parseFlux(src)
		if err != nil {
			return nil, err
		}
		if !upd.Options.Every.IsZero() && upd.Options.Cron != "" {
			return nil, errInvalid // "cannot specify both cron and every"
		}
		if !upd.Options.Every.IsZero() {
			o.Every, o.Cron = upd.Options.Every, ""
		}
		if upd.Options.Cron != "" {
			o.Cron, o.Every = upd.Options.Cron, options.Duration{}
		}
		if upd.Options.Offset != nil {
			if upd.Options.Offset.IsZero() {
				o.Offset = nil
			} else {
				o.Offset = upd.Options.Offset
			}
		}
		if err := o.Validate(); err != nil {
			return nil, errInvalid
		}
		if err := applyOpts(t, o); err != nil {
			return nil, err
		}
		t.Flux = encodeFlux(o, t.Offset)
		t.UpdatedAt = updatedAt
	}
	if upd.Status != nil && t.Status != *upd.Status {
		t.Status = *upd.Status
		t.UpdatedAt = updatedAt
		if t.Status == taskmodel.TaskStatusActive {
			tr := updatedAt.Truncate(time.Second).UTC()
			t.LatestCompleted = tr
			t.LatestScheduled = tr
		}
	}
	if upd.LatestCompleted != nil {
		if !upd.LatestCompleted.IsZero() && upd.LatestCompleted.After(t.LatestCompleted) {
			t.LatestCompleted = *upd.LatestCompleted
		}
	}
	if upd.LatestScheduled != nil {
		if upd.LatestScheduled.After(t.LatestScheduled) {
			t.LatestScheduled = *upd.LatestScheduled
		}
	}
	s.tasks[id] = t
	return cp(t), nil
}

func (s *fakeSvc) DeleteTask(ctx context.Context, id platform.ID) error {
	s.mu.Lock()
	defer s.mu.Unlock()
	if _, ok := s.tasks[id]; !ok {
		return taskmodel.ErrTaskNotFound
	}
	delete(s.tasks, id)
	return nil
}

func (s *fakeSvc) FindLogs(context.Context, taskmodel.LogFilter) ([]*taskmodel.Log, int, error) {
	return nil, 0, nil
}
func (s *fakeSvc) FindRuns(context.Context, taskmodel.RunFilter) ([]*taskmodel.Run, int, error) {
	return nil, 0, nil
}
func (s *fakeSvc) FindRunByID(ctx context.Context, taskID, runID platform.ID) (*taskmodel.Run, error) {
	return nil, taskmodel.ErrRunNotFound
}
func (s *fakeSvc) has(id platform.ID) bool {
	s.mu.Lock()
	defer s.mu.Unlock()
	_, ok := s.tasks[id]
	return ok
}
func (s *fakeSvc) CancelRun(ctx context.Context, taskID, runID platform.ID) error {
	if !s.has(taskID) {
		return taskmodel.ErrTaskNotFound
	}
	return nil
}
func (s *fakeSvc) RetryRun(ctx context.Context, taskID, runID platform.ID) (*taskmodel.Run, error) {
	if !s.has(taskID) {
		return nil, taskmodel.ErrTaskNotFound
	}
	// a retry is a manual run scheduled for the original run's time
	return &taskmodel.Run{ID: runID + 1000, TaskID: taskID, ScheduledFor: time.Unix(int64(runID), 0).UTC()}, nil
}
func (s *fakeSvc) ForceRun(ctx context.Context, taskID platform.ID, scheduledFor int64) (*taskmodel.Run, error) {
	if !s.has(taskID) {
		return nil, taskmodel.ErrTaskNotFound
	}
	r := &taskmodel.Run{ID: platform.ID(2000 + scheduledFor), TaskID: taskID}
	if scheduledFor != 0 {
		r.ScheduledFor = time.Unix(scheduledFor, 0).UTC()
	}
	return r, nil
}

// TaskControlService part used by TaskNotifyCoordinatorOfExisting
type fakeTCS struct{ backend.TaskControlService }

func (fakeTCS) CurrentlyRunning(ctx context.Context, taskID platform.ID) ([]*taskmodel.Run, error) {
	return nil, nil
}

// ---------------------------------------------------------------- recording scheduler / executor

type held struct {
	eff    string
	offset time.Duration
}

type recSched struct {
	mu    sync.Mutex
	held  map[scheduler.ID]held
	calls *[]string
}

func (r *recSched) Schedule(t scheduler.Schedulable) error {
	r.mu.Lock()
	defer r.mu.Unlock()
	eff := "?"
	if st, ok := t.(coordinator.SchedulableTask); ok && st.Task != nil {
		eff = st.Task.EffectiveCron()
	}
	// the schedule object must be usable: ask it for a next time like TreeScheduler.Schedule does
	if _, err := t.Schedule().Next(t.LastScheduled()); err != nil {
		*r.calls = append(*r.calls, "X"+strconv.FormatUint(uint64(t.ID()), 10))
		return err
	}
	r.held[t.ID()] = held{eff: eff, offset: t.Offset()}
	*r.calls = append(*r.calls, "S"+strconv.FormatUint(uint64(t.ID()), 10))
	return nil
}

func (r *recSched) Release(id scheduler.ID) error {
	r.mu.Lock()
	defer r.mu.Unlock()
	*r.calls = append(*r.calls, "R"+strconv.FormatUint(uint64(id), 10))
	if _, ok := r.held[id]; !ok {
		return taskmodel.ErrTaskNotClaimed
	}
	delete(r.held, id)
	return nil
}

type recExec struct{ calls *[]string }

func (e recExec) ManualRun(ctx context.Context, id, runID platform.ID) (executor.Promise, error) {
	*e.calls = append(*e.calls, fmt.Sprintf("M%d.%d", uint64(id), uint64(runID)))
	return nil, nil
}
func (e recExec) ScheduleManualRun(ctx context.Context, id, runID platform.ID) error {
	*e.calls = append(*e.calls, fmt.Sprintf("F%d.%d", uint64(id), uint64(runID)))
	return nil
}
func (e recExec) Cancel(ctx context.Context, runID platform.ID) error {
	*e.calls = append(*e.calls, fmt.Sprintf("C%d", uint64(runID)))
	return nil
}

// ---------------------------------------------------------------- the case runner

type runner struct {
	svc   *fakeSvc
	sch   *recSched
	coord *coordinator.Coordinator
	mw    *middleware.CoordinatingTaskService
	calls []string
}

func (c *runner) wire() {
	c.sch = &recSched{held: map[scheduler.ID]held{}, calls: &c.calls}
	c.coord = coordinator.NewCoordinator(zap.NewNop(), c.sch, recExec{&c.calls})
	c.mw = middleware.New(c.svc, c.coord)
}

func newCase() h.CaseRunner {
	c := &runner{svc: newFakeSvc()}
	c.wire()
	return c
}

func (c *runner) Close() {}

func errName(err error) string {
	switch {
	case err == nil:
		return "ok"
	case errors.Is(err, taskmodel.ErrTaskNotFound) || err == taskmodel.ErrTaskNotFound:
		return "err:notfound"
	case errors.Is(err, errInvalid):
		return "err:invalid"
	}
	if strings.Contains(err.Error(), "invalid cron or every") || strings.Contains(err.Error(), "cron") {
		return "err:sched"
	}
	return "err:other"
}

func secs(d time.Duration) string {
	if d%time.Second == 0 {
		return strconv.FormatInt(int64(d/time.Second), 10)
	}
	return "ns" + strconv.FormatInt(int64(d), 10)
}

func stName(s string) string {
	switch s {
	case "active":
		return "a"
	case "inactive":
		return "i"
	}
	return "?" + h.HexS(s)
}

func (c *runner) state() string {
	var ts, ss []string
	c.svc.mu.Lock()
	for _, id := range c.svc.sortedIDs() {
		t := c.svc.tasks[id]
		ts = append(ts, fmt.Sprintf("%d:%s:%s:%s:%s", uint64(id), stName(t.Status), h.HexS(t.Cron), h.HexS(t.Every), secs(t.Offset)))
	}
	c.svc.mu.Unlock()
	c.sch.mu.Lock()
	ids := make([]scheduler.ID, 0, len(c.sch.held))
	for id := range c.sch.held {
		ids = append(ids, id)
	}
	sort.Slice(ids, func(i, j int) bool { return ids[i] < ids[j] })
	for _, id := range ids {
		hd := c.sch.held[id]
		ss = append(ss, fmt.Sprintf("%d:%s:%s", uint64(id), h.HexS(hd.eff), secs(hd.offset)))
	}
	c.sch.mu.Unlock()
	return h.Join(c.calls) + "|" + h.Join(ts) + "|" + h.Join(ss)
}

func flux(kind, hexspec, off string) string {
	return kind + "\x00" + string(h.MustUnHex(hexspec)) + "\x00" + off
}

func statusOf(s string) (string, bool) {
	switch s {
	case "a":
		return "active", true
	case "i":
		return "inactive", true
	case "d":
		return "", true
	}
	return "", false
}

func (c *runner) Op(t []string) string {
	ctx := context.Background()
	c.calls = nil
	bad := "bad-op"
	if len(t) == 0 {
		return bad
	}
	num := func(s string) (uint64, bool) {
		v, err := strconv.ParseUint(s, 10, 63)
		return v, err == nil
	}
	var res string
	switch t[0] {
	case "create":
		if len(t) != 6 || (t[2] != "c" && t[2] != "e") {
			return bad
		}
		st, ok := statusOf(t[1])
		if _, err := h.UnHex(t[3]); err != nil || !ok {
			return bad
		}
		if _, err := strconv.ParseInt(t[4], 10, 64); err != nil {
			return bad
		}
		tk, err := c.mw.CreateTask(ctx, taskmodel.TaskCreate{Flux: flux(t[2], t[3], t[4]), Status: st, OrganizationID: 1})
		res = errName(err)
		if err == nil {
			res = "ok:" + strconv.FormatUint(uint64(tk.ID), 10)
		}
	case "update":
		if len(t) != 4 && len(t) != 7 {
			return bad
		}
		id, ok := num(t[1])
		if !ok {
			return bad
		}
		var upd taskmodel.TaskUpdate
		if t[2] != "-" {
			st, ok := statusOf(t[2])
			if !ok || st == "" {
				return bad
			}
			upd.Status = &st
		}
		if len(t) == 7 {
			if t[3] != "c" && t[3] != "e" {
				return bad
			}
			if _, err := h.UnHex(t[4]); err != nil {
				return bad
			}
			if _, err := strconv.ParseInt(t[5], 10, 64); err != nil {
				return bad
			}
			f := flux(t[3], t[4], t[5])
			upd.Flux = &f
		} else if t[3] != "-" {
			return bad
		}
		_, err := c.mw.UpdateTask(ctx, platform.ID(id), upd)
		res = errName(err)
	case "optupd":
		if len(t) != 6 {
			return bad
		}
		id, ok := num(t[1])
		if !ok || (t[5] != "0" && t[5] != "1") {
			return bad
		}
		var upd taskmodel.TaskUpdate
		if t[2] != "_" {
			b, err := h.UnHex(t[2])
			if err != nil {
				return bad
			}
			if len(b) == 0 {
				return bad
			}
			if err := upd.Options.Every.Parse(string(b)); err != nil {
				return bad // not expressible as a TaskUpdate (the HTTP layer rejects it)
			}
		}
		if t[3] != "_" {
			b, err := h.UnHex(t[3])
			if err != nil || len(b) == 0 {
				return bad
			}
			upd.Options.Cron = string(b)
		}
		if t[4] != "_" {
			if _, err := strconv.ParseInt(t[4], 10, 64); err != nil {
				return bad
			}
			d := &options.Duration{}
			if err := d.Parse(t[4] + "s"); err != nil {
				return bad
			}
			upd.Options.Offset = d
		}
		_, err := c.mw.UpdateTask(ctx, platform.ID(id), upd)
		res = errName(err)
	case "delete":
		if len(t) != 2 {
			return bad
		}
		id, ok := num(t[1])
		if !ok {
			return bad
		}
		res = errName(c.mw.DeleteTask(ctx, platform.ID(id)))
	case "restart":
		if len(t) != 3 {
			return bad
		}
		ps, ok := num(t[2])
		if !ok || ps == 0 || ps > 500 {
			return bad
		}
		c.svc.pageSize = int(ps)
		c.wire() // a new process: empty scheduler, new coordinator and middleware over the same store
		var err error
		switch t[1] {
		case "L": // as cmd/influxd/launcher does: the coordinating service itself is the lister/updater
			err = backend.TaskNotifyCoordinatorOfExisting(ctx, c.mw, fakeTCS{}, c.coord,
				func(ctx context.Context, id, runID platform.ID) error { return nil }, zap.NewNop())
		case "N":
			err = backend.NotifyCoordinatorOfExisting(ctx, zap.NewNop(), c.svc, c.coord)
		case "M":
			err = backend.NotifyCoordinatorOfExisting(ctx, zap.NewNop(), c.mw, c.coord)
		default:
			return bad
		}
		c.svc.pageSize = taskmodel.TaskDefaultPageSize
		res = errName(err)
	case "cancel", "retry":
		if len(t) != 3 {
			return bad
		}
		id, ok1 := num(t[1])
		run, ok2 := num(t[2])
		if !ok1 || !ok2 {
			return bad
		}
		var err error
		if t[0] == "cancel" {
			err = c.mw.CancelRun(ctx, platform.ID(id), platform.ID(run))
		} else {
			_, err = c.mw.RetryRun(ctx, platform.ID(id), platform.ID(run))
		}
		res = errName(err)
	case "force":
		if len(t) != 3 {
			return bad
		}
		id, ok1 := num(t[1])
		sf, ok2 := num(t[2])
		if !ok1 || !ok2 || sf > 1000 {
			return bad
		}
		_, err := c.mw.ForceRun(ctx, platform.ID(id), int64(sf))
		res = errName(err)
	default:
		return bad
	}
	return res + "|" + c.state()
}

// ---------------------------------------------------------------- generator

type schedSpec struct {
	kind, spec string
	off        int64
	valid      bool
}

var specs = []schedSpec{
	{"e", "1m", 0, true}, {"e", "1h", 0, true}, {"e", "10s", 5, true}, {"e", "1m30s", -10, true},
	{"e", "1d", 0, true}, {"e", "1w", 60, true}, {"e", "1mo", 0, true}, {"e", "1y", 0, true},
	{"c", "* * * * *", 0, true}, {"c", "0 * * * *", 30, true}, {"c", "*/5 * * * * *", 0, true},
	{"c", "@hourly", 0, true}, {"c", "@every 1h", 0, true}, {"c", "0 0 1 1 *", 3600, true},
	// rejected by the service (options.Validate)
	{"e", "", 0, false}, {"c", "", 0, false}, {"c", "not a cron", 0, false}, {"e", "500ms", 0, false},
	{"c", "* * * *", 0, false}, {"e", "0s", 0, false},
}

func (s schedSpec) toks() string {
	return s.kind + " " + h.HexS(s.spec) + " " + strconv.FormatInt(s.off, 10) + " " + h.B(s.valid)
}

func pickSpec(r *h.Rand) schedSpec {
	if r.Chance(0.12) {
		return specs[14+r.Intn(len(specs)-14)]
	}
	return specs[r.Intn(14)]
}

func gen(r *h.Rand, tier string, emit func([]string)) {
	// h.NewRand(seed) starts at seed*gamma and steps by gamma, so consecutive seeds give the same
	// stream shifted by one draw; re-seed from the first output to get unrelated streams per seed.
	r = h.NewRand(r.Uint64())
	// 1. exhaustive short histories over two tasks: every sequence of length <= L from a small alphabet
	alpha := []string{
		"create a e " + h.HexS("1m") + " 0 1",
		"create i c " + h.HexS("* * * * *") + " 5 1",
		"create d e " + h.HexS("1h") + " 0 1",
		"update 1 i -", "update 1 a -", "update 1 - e " + h.HexS("10s") + " 5 1",
		"update 1 i c " + h.HexS("0 * * * *") + " 30 1", "update 1 a e " + h.HexS("1d") + " 0 1",
		"update 2 a -", "update 2 i -",
		"delete 1", "delete 2", "restart L 1", "restart N 2",
		"optupd 1 " + h.HexS("5m") + " _ _ 1", "optupd 1 _ " + h.HexS("*/5 * * * *") + " _ 1", "optupd 1 _ _ 7 1",
		"optupd 2 " + h.HexS("2h") + " _ 0 1",
	}
	L := 3
	if tier == "thorough" {
		L = 4
	}
	var rec func(prefix []string, depth int)
	rec = func(prefix []string, depth int) {
		if len(prefix) > 0 {
			emit(append([]string(nil), prefix...))
		}
		if depth == L {
			return
		}
		for _, a := range alpha {
			rec(append(prefix, a), depth+1)
		}
	}
	// only maximal sequences are needed (every prefix is checked op by op)
	var recMax func(prefix []string, depth int)
	recMax = func(prefix []string, depth int) {
		if depth == L {
			emit(append([]string(nil), prefix...))
			return
		}
		for _, a := range alpha {
			recMax(append(prefix, a), depth+1)
		}
	}
	_ = rec
	recMax(nil, 0)

	// 2. random long histories over a few tasks
	n := 1500
	if tier == "thorough" {
		n = 20000
	}
	sts := []string{"a", "i", "d"}
	for i := 0; i < n; i++ {
		ln := 4 + r.Intn(28)
		var ops []string
		created := 0
		pickID := func() int {
			if created == 0 || r.Chance(0.05) {
				return 1 + r.Intn(6)
			}
			return 1 + r.Intn(created)
		}
		pInactive := 0.1 + 0.5*float64(r.Intn(3))/2
		for j := 0; j < ln; j++ {
			x := r.Intn(100)
			switch {
			case x < 25 || created == 0:
				st := h.Pick(r, sts)
				if r.Chance(pInactive) {
					st = "i"
				}
				sp := pickSpec(r)
				ops = append(ops, "create "+st+" "+sp.toks())
				if sp.valid {
					created++
				}
			case x < 65:
				st := h.Pick(r, []string{"a", "i", "-", "-"})
				if r.Chance(0.5) {
					ops = append(ops, fmt.Sprintf("update %d %s %s", pickID(), st, pickSpec(r).toks()))
				} else {
					ops = append(ops, fmt.Sprintf("update %d %s -", pickID(), st))
				}
			case x < 72:
				// options-only patches: every / cron / offset alone and combined, a few rejected ones
				ev, cr, off, valid := "_", "_", "_", true
				switch r.Intn(8) {
				case 0:
					ev = h.HexS(h.Pick(r, []string{"5m", "2h", "30s", "1d"}))
				case 1:
					cr = h.HexS(h.Pick(r, []string{"*/5 * * * *", "0 0 * * *", "@daily"}))
				case 2:
					off = strconv.Itoa(r.Intn(4) * 15)
				case 3:
					ev, off = h.HexS(h.Pick(r, []string{"5m", "45s"})), strconv.Itoa(r.Intn(3)*20)
				case 4:
					cr, off = h.HexS("30 * * * *"), strconv.Itoa(10+r.Intn(50))
				case 5:
					ev, cr, valid = h.HexS("5m"), h.HexS("* * * * *"), false // both: rejected
				case 6:
					ev, valid = h.HexS("500ms"), false // below one second: rejected
				default:
					cr, valid = h.HexS("not a cron"), false
				}
				ops = append(ops, fmt.Sprintf("optupd %d %s %s %s %s", pickID(), ev, cr, off, h.B(valid)))
			case x < 80:
				ops = append(ops, fmt.Sprintf("delete %d", pickID()))
			case x < 88:
				ops = append(ops, fmt.Sprintf("restart %s %d", h.Pick(r, []string{"L", "N", "M"}), 1+r.Intn(4)))
			case x < 92:
				ops = append(ops, fmt.Sprintf("cancel %d %d", pickID(), 1+r.Intn(9)))
			case x < 96:
				ops = append(ops, fmt.Sprintf("force %d %d", pickID(), r.Intn(3)))
			default:
				ops = append(ops, fmt.Sprintf("retry %d %d", pickID(), 1+r.Intn(9)))
			}
		}
		emit(ops)
	}
	// 3. malformed stream
	emit([]string{"create", "create x e 316d 0 1", "create a q 316d 0 1", "create a e zz 0 1", "update 1", "update x a -",
		"update 1 q -", "update 1 a e 316d", "delete", "delete -1", "restart Q 1", "restart L 0", "frobnicate 1", "force 1 x",
		"create a e 316d 0 1", "update 1 d -", "optupd 1 _ _", "optupd x _ _ _ 1", "optupd 1 zz _ _ 1", "optupd 1 _ _ q 1",
		"optupd 1 _ _ _ 2"})
}

func main() {
	h.Main(h.Harness{Gen: gen, NewCase: newCase, OpTimeout: 20 * time.Second})
}
