// throw-away probe (deleted after use): WriteMulti racing DeleteRange on one key
package main

import (
	"fmt"
	"sync"
	"sync/atomic"

	"github.com/influxdata/influxdb/v2/tsdb"
	"github.com/influxdata/influxdb/v2/tsdb/engine/tsm1"
)

func main() {
	lost, staleSize := 0, 0
	const N = 300000
	for it := 0; it < N; it++ {
		c := tsm1.NewCache(0, tsdb.EngineTags{})
		k := "k"
		c.WriteMulti(map[string][]tsm1.Value{k: {tsm1.NewFloatValue(10, 1)}})
		var wg sync.WaitGroup
		var go1 atomic.Int32
		wg.Add(2)
		go func() {
			defer wg.Done()
			go1.Add(1)
			for go1.Load() < 2 {
			}
			c.WriteMulti(map[string][]tsm1.Value{k: {tsm1.NewFloatValue(100, 2)}})
		}()
		go func() {
			defer wg.Done()
			go1.Add(1)
			for go1.Load() < 2 {
			}
			c.DeleteRange([][]byte{[]byte(k)}, 0, 50)
		}()
		wg.Wait()
		vs := c.Values([]byte(k))
		if len(vs) != 1 || vs[0].UnixNano() != 100 {
			lost++
			if lost <= 3 {
				fmt.Printf("iteration %d: after acknowledged WriteMulti{k:[t=100]} || DeleteRange(k,0,50): Values(k)=%v Size()=%d\n", it, vs, c.Size())
			}
		} else if c.Size() != 17 {
			staleSize++
		}
	}
	fmt.Printf("lost=%d staleSize=%d of %d\n", lost, staleSize, N)
}
